// Package chain is a deterministic in-process ABCI driver for haqq: fixed keys, fixed genesis time, explicit
// block inputs (time, proposer, votes, evidence), fork-by-DB-copy and restart. Nothing here reads the wall clock
// or a random source, so a run is a pure function of the inputs.
package chain

import (
	"crypto/sha256"
	"encoding/binary"
	"encoding/json"
	"fmt"
	tmversion "github.com/cometbft/cometbft/proto/tendermint/version"
	"math/big"
	"sort"
	"time"

	sdkmath "cosmossdk.io/math"
	dbm "github.com/cometbft/cometbft-db"
	abci "github.com/cometbft/cometbft/abci/types"
	tmcrypto "github.com/cometbft/cometbft/crypto"
	tmed "github.com/cometbft/cometbft/crypto/ed25519"
	cryptoenc "github.com/cometbft/cometbft/crypto/encoding"
	"github.com/cometbft/cometbft/libs/log"
	tmproto "github.com/cometbft/cometbft/proto/tendermint/types"
	"github.com/cosmos/cosmos-sdk/baseapp"
	"github.com/cosmos/cosmos-sdk/codec"
	codectypes "github.com/cosmos/cosmos-sdk/codec/types"
	cryptocodec "github.com/cosmos/cosmos-sdk/crypto/codec"
	servertypes "github.com/cosmos/cosmos-sdk/server/types"
	storetypes "github.com/cosmos/cosmos-sdk/store/types"
	simutils "github.com/cosmos/cosmos-sdk/testutil/sims"
	sdk "github.com/cosmos/cosmos-sdk/types"
	authtypes "github.com/cosmos/cosmos-sdk/x/auth/types"
	banktypes "github.com/cosmos/cosmos-sdk/x/bank/types"
	slashingtypes "github.com/cosmos/cosmos-sdk/x/slashing/types"
	stakingtypes "github.com/cosmos/cosmos-sdk/x/staking/types"
	"github.com/ethereum/go-ethereum/common"
	"github.com/ethereum/go-ethereum/crypto"

	"github.com/haqq-network/haqq/app"
	"github.com/haqq-network/haqq/crypto/ethsecp256k1"
	"github.com/haqq-network/haqq/encoding"
	haqqtypes "github.com/haqq-network/haqq/types"
	"github.com/haqq-network/haqq/utils"
	coinomicstypes "github.com/haqq-network/haqq/x/coinomics/types"
	"github.com/haqq-network/haqq/x/evm/statedb"
)

const (
	ChainID = "haqq_11235-1"
	Denom   = utils.BaseDenom
)

// GenesisTime is fixed; block times are GenesisTime + sum of generated steps.
var GenesisTime = time.Date(2025, 3, 1, 12, 0, 0, 0, time.UTC)

// Account is a deterministic ethsecp256k1 key derived from a label.
type Account struct {
	Label string
	Priv  *ethsecp256k1.PrivKey
	Addr  sdk.AccAddress
	Hex   common.Address
}

func Acct(label string) Account {
	h := sha256.Sum256([]byte("verif-acct|" + label))
	priv := &ethsecp256k1.PrivKey{Key: h[:]}
	ec, err := priv.ToECDSA()
	if err != nil {
		panic(err)
	}
	hex := crypto.PubkeyToAddress(ec.PublicKey)
	return Account{Label: label, Priv: priv, Addr: sdk.AccAddress(hex.Bytes()), Hex: hex}
}

func Accts(prefix string, n int) []Account {
	out := make([]Account, n)
	for i := range out {
		out[i] = Acct(fmt.Sprintf("%s%d", prefix, i))
	}
	return out
}

// Val is a consensus validator key.
type Val struct {
	Priv    tmed.PrivKey
	Pub     tmed.PubKey
	Cons    []byte // consensus address
	OpAddr  sdk.ValAddress
	Power   int64
	Present bool
}

func valKey(i int) tmed.PrivKey {
	return tmed.GenPrivKeyFromSecret([]byte(fmt.Sprintf("verif-val|%d", i)))
}

// Opts configures genesis.
type Opts struct {
	NumVals     int
	Accounts    []Account   // each funded with Balance
	Balance     sdkmath.Int // default 1e24
	ExtraCoins  sdk.Coins   // additional coins given to every account in Accounts
	ValPower    int64       // consensus power of each genesis validator (default 1)
	Mutate      func(cdc codec.Codec, gs haqqtypes.GenesisState)
	GenesisTime time.Time
	MaxGas      int64 // consensus block max gas; 0 → -1 (unlimited)
	Coinomics   *coinomicstypes.GenesisState
	ChainID     string
	// LocalConfig: node-local settings (app.toml / flags) that must not influence consensus, e.g. "evm.max-tx-gas-wanted",
	// "minimum-gas-prices". Not part of genesis.
	LocalConfig map[string]interface{}
}

// Node is one application instance plus the bookkeeping a consensus engine would keep.
type Node struct {
	App     *app.Haqq
	DB      dbm.DB
	ChainID string
	Header  tmproto.Header // header of the block being executed (after BeginBlock) or of the last block
	InBlock bool
	// validator sets: cur signs the current block; next = after pending updates
	ValsCur   []abci.Validator // sorted by address, power>0
	ValsNext  []abci.Validator
	ValsNN    []abci.Validator // set for height+2
	LastVotes []abci.VoteInfo
	Opts      Opts
}

func newApp(db dbm.DB, chainID string, local map[string]interface{}) *app.Haqq {
	opts := simutils.AppOptionsMap{"home": app.DefaultNodeHome}
	bopts := []func(*baseapp.BaseApp){baseapp.SetChainID(chainID)}
	for k, v := range local {
		if k == "minimum-gas-prices" {
			bopts = append(bopts, baseapp.SetMinGasPrices(v.(string)))
			continue
		}
		opts[k] = v
	}
	return app.NewHaqq(
		log.NewNopLogger(), db, nil, true, map[int64]bool{}, app.DefaultNodeHome, 0,
		encoding.MakeConfig(app.ModuleBasics), opts, bopts...,
	)
}

func bigPow10(n int) sdkmath.Int {
	return sdkmath.NewIntWithDecimal(1, n)
}

// NewNode builds genesis and runs InitChain+Commit. The node is then at height 1 committed... (InitChain sets
// initial height 1; first BeginBlock is height 1).
func NewNode(o Opts) *Node {
	if o.NumVals <= 0 {
		o.NumVals = 1
	}
	if o.Balance.IsNil() {
		o.Balance = bigPow10(24)
	}
	if o.ValPower <= 0 {
		o.ValPower = 1
	}
	if o.GenesisTime.IsZero() {
		o.GenesisTime = GenesisTime
	}
	if o.ChainID == "" {
		o.ChainID = ChainID
	}
	db := dbm.NewMemDB()
	a := newApp(db, o.ChainID, o.LocalConfig)
	cdc := a.AppCodec()
	gs := app.NewDefaultGenesisState()

	// accounts
	emptyCodeHash := crypto.Keccak256Hash(nil).String()
	var genAccs []authtypes.GenesisAccount
	var balances []banktypes.Balance
	for _, acc := range o.Accounts {
		genAccs = append(genAccs, &haqqtypes.EthAccount{BaseAccount: authtypes.NewBaseAccount(acc.Addr, nil, 0, 0), CodeHash: emptyCodeHash})
		balances = append(balances, banktypes.Balance{Address: acc.Addr.String(), Coins: sdk.NewCoins(sdk.NewCoin(Denom, o.Balance)).Add(o.ExtraCoins...)})
	}

	// validators: self-delegated by dedicated operator accounts "valop<i>"
	bonded := sdk.TokensFromConsensusPower(o.ValPower, haqqtypes.PowerReduction)
	var vals []stakingtypes.Validator
	var dels []stakingtypes.Delegation
	var tmVals []abci.Validator
	var signingInfos []slashingtypes.SigningInfo
	for i := 0; i < o.NumVals; i++ {
		pk := valKey(i)
		tmPub := pk.PubKey()
		sdkPk, err := cryptocodec.FromTmPubKeyInterface(tmPub)
		if err != nil {
			panic(err)
		}
		pkAny, err := codectypes.NewAnyWithValue(sdkPk)
		if err != nil {
			panic(err)
		}
		op := Acct(fmt.Sprintf("valop%d", i))
		v := stakingtypes.Validator{
			OperatorAddress: sdk.ValAddress(op.Addr).String(), ConsensusPubkey: pkAny, Status: stakingtypes.Bonded,
			Tokens: bonded, DelegatorShares: sdk.NewDecFromInt(bonded), Description: stakingtypes.Description{Moniker: fmt.Sprintf("v%d", i)},
			UnbondingTime:     time.Unix(0, 0).UTC(),
			Commission:        stakingtypes.NewCommission(sdk.NewDecWithPrec(5, 2), sdk.NewDecWithPrec(50, 2), sdk.NewDecWithPrec(10, 2)),
			MinSelfDelegation: sdk.OneInt(),
		}
		vals = append(vals, v)
		dels = append(dels, stakingtypes.NewDelegation(op.Addr, sdk.ValAddress(op.Addr), sdk.NewDecFromInt(bonded)))
		genAccs = append(genAccs, &haqqtypes.EthAccount{BaseAccount: authtypes.NewBaseAccount(op.Addr, nil, 0, 0), CodeHash: emptyCodeHash})
		balances = append(balances, banktypes.Balance{Address: op.Addr.String(), Coins: sdk.NewCoins(sdk.NewCoin(Denom, o.Balance))})
		tmVals = append(tmVals, abci.Validator{Address: tmPub.Address(), Power: o.ValPower})
		cons := sdk.ConsAddress(tmPub.Address())
		signingInfos = append(signingInfos, slashingtypes.SigningInfo{Address: cons.String(),
			ValidatorSigningInfo: slashingtypes.NewValidatorSigningInfo(cons, 0, 0, time.Unix(0, 0).UTC(), false, 0)})
	}
	slg := slashingtypes.DefaultGenesisState()
	slg.SigningInfos = signingInfos
	gs[slashingtypes.ModuleName] = cdc.MustMarshalJSON(slg)
	gs[authtypes.ModuleName] = cdc.MustMarshalJSON(authtypes.NewGenesisState(authtypes.DefaultParams(), genAccs))
	sp := stakingtypes.DefaultParams()
	sp.BondDenom = Denom
	gs[stakingtypes.ModuleName] = cdc.MustMarshalJSON(stakingtypes.NewGenesisState(sp, vals, dels))
	balances = append(balances, banktypes.Balance{
		Address: authtypes.NewModuleAddress(stakingtypes.BondedPoolName).String(),
		Coins:   sdk.NewCoins(sdk.NewCoin(Denom, bonded.MulRaw(int64(o.NumVals)))),
	})
	total := sdk.NewCoins()
	for _, b := range balances {
		total = total.Add(b.Coins...)
	}
	gs[banktypes.ModuleName] = cdc.MustMarshalJSON(banktypes.NewGenesisState(banktypes.DefaultGenesisState().Params, balances, total,
		[]banktypes.Metadata{{
			Description: "The native token of Haqq Network", Base: Denom, Name: "Islamic Coin", Symbol: "ISLM", Display: "ISLM",
			DenomUnits: []*banktypes.DenomUnit{{Denom: Denom, Exponent: 0, Aliases: []string{"attoislm"}}, {Denom: "ISLM", Exponent: 18}},
		}}, []banktypes.SendEnabled{}))

	cg := o.Coinomics
	if cg == nil {
		p := coinomicstypes.DefaultParams()
		p.EnableCoinomics = false
		g := coinomicstypes.NewGenesisState(p, sdk.NewCoin(Denom, bigPow10(29)))
		cg = &g
	}
	gs[coinomicstypes.ModuleName] = cdc.MustMarshalJSON(cg)

	if o.Mutate != nil {
		o.Mutate(cdc, gs)
	}
	stateBytes, err := json.Marshal(gs)
	if err != nil {
		panic(err)
	}
	cp := *app.DefaultConsensusParams
	blk := *cp.Block
	if o.MaxGas != 0 {
		blk.MaxGas = o.MaxGas
	}
	cp.Block = &blk
	a.InitChain(abci.RequestInitChain{
		Time: o.GenesisTime, ChainId: o.ChainID, Validators: []abci.ValidatorUpdate{},
		ConsensusParams: &cp, AppStateBytes: stateBytes, InitialHeight: 1,
	})
	a.Commit()
	sortVals(tmVals)
	n := &Node{App: a, DB: db, ChainID: o.ChainID, Opts: o,
		Header:  tmproto.Header{ChainID: o.ChainID, Height: a.LastBlockHeight(), Time: o.GenesisTime, AppHash: a.LastCommitID().Hash},
		ValsCur: tmVals, ValsNext: cloneVals(tmVals), ValsNN: cloneVals(tmVals)}
	return n
}

func valsHash(v []abci.Validator) []byte {
	hs := sha256.New()
	for _, x := range v {
		hs.Write(x.Address)
		var p [8]byte
		binary.BigEndian.PutUint64(p[:], uint64(x.Power))
		hs.Write(p[:])
	}
	return hs.Sum(nil)
}

func sortVals(v []abci.Validator) {
	sort.Slice(v, func(i, j int) bool { return string(v[i].Address) < string(v[j].Address) })
}

func cloneVals(v []abci.Validator) []abci.Validator {
	out := make([]abci.Validator, len(v))
	copy(out, v)
	return out
}

// BlockIn is the explicit input of one block besides its transactions.
type BlockIn struct {
	Dt       time.Duration // time since previous block (must be > 0)
	Proposer int           // index into the current validator set (mod len)
	Absent   []int         // indices (mod len) of validators that did NOT sign the previous block
	Evidence []abci.Misbehavior
	NoVotes  bool // the block carries no commit of the previous block (as the first block of a chain does)
}

// BeginBlock starts the next block.
func (n *Node) BeginBlock(in BlockIn) abci.ResponseBeginBlock {
	if n.InBlock {
		panic("BeginBlock inside a block")
	}
	if in.Dt <= 0 {
		in.Dt = time.Second
	}
	h := n.Header
	h.Height = n.App.LastBlockHeight() + 1
	h.Time = n.Header.Time.Add(in.Dt)
	h.AppHash = n.App.LastCommitID().Hash
	h.ChainID = n.ChainID
	// a header as a consensus engine would fill it far enough to have a hash (BLOCKHASH is derived from it)
	h.ValidatorsHash, h.NextValidatorsHash = valsHash(n.ValsCur), valsHash(n.ValsNext)
	h.Version = tmversion.Consensus{Block: 11}
	if len(n.ValsCur) > 0 {
		h.ProposerAddress = n.ValsCur[((in.Proposer%len(n.ValsCur))+len(n.ValsCur))%len(n.ValsCur)].Address
	}
	// votes for the previous block were cast by the previous block's validator set == n.LastVotes prepared at commit
	votes := make([]abci.VoteInfo, len(n.LastVotes))
	copy(votes, n.LastVotes)
	if len(votes) > 0 {
		for _, a := range in.Absent {
			votes[((a%len(votes))+len(votes))%len(votes)].SignedLastBlock = false
		}
	}
	if in.NoVotes {
		votes = nil
	}
	n.Header = h
	n.InBlock = true
	return n.App.BeginBlock(abci.RequestBeginBlock{
		Header: h, LastCommitInfo: abci.CommitInfo{Votes: votes}, ByzantineValidators: in.Evidence,
	})
}

// Ctx returns a context over the deliver state of the block in progress (writes are committed with the block).
func (n *Node) Ctx() sdk.Context {
	return n.App.BaseApp.NewContext(false, n.Header)
}

// CheckCtx returns a context over the check state.
func (n *Node) CheckCtx() sdk.Context {
	return n.App.BaseApp.NewContext(true, n.Header)
}

func (n *Node) DeliverTx(bz []byte) abci.ResponseDeliverTx {
	if !n.InBlock {
		panic("DeliverTx outside a block")
	}
	return n.App.DeliverTx(abci.RequestDeliverTx{Tx: bz})
}

func (n *Node) CheckTx(bz []byte) abci.ResponseCheckTx {
	return n.App.CheckTx(abci.RequestCheckTx{Tx: bz, Type: abci.CheckTxType_New})
}

// EndBlockCommit ends and commits the block in progress and rotates the validator sets like CometBFT does
// (updates returned at height H take effect at H+2).
func (n *Node) EndBlockCommit() (abci.ResponseEndBlock, []byte) {
	if !n.InBlock {
		panic("EndBlock outside a block")
	}
	res := n.App.EndBlock(abci.RequestEndBlock{Height: n.Header.Height})
	n.App.Commit()
	n.InBlock = false
	// votes for this block come from the set that signed it
	n.LastVotes = n.LastVotes[:0]
	for _, v := range n.ValsCur {
		n.LastVotes = append(n.LastVotes, abci.VoteInfo{Validator: v, SignedLastBlock: true})
	}
	nn := applyUpdates(n.ValsNN, res.ValidatorUpdates)
	n.ValsCur, n.ValsNext, n.ValsNN = n.ValsNext, n.ValsNN, nn
	return res, n.App.LastCommitID().Hash
}

func applyUpdates(cur []abci.Validator, ups []abci.ValidatorUpdate) []abci.Validator {
	out := cloneVals(cur)
	for _, u := range ups {
		pk, err := cryptoencPubKey(u)
		if err != nil {
			panic(err)
		}
		addr := pk.Address()
		idx := -1
		for i := range out {
			if string(out[i].Address) == string(addr) {
				idx = i
			}
		}
		switch {
		case u.Power == 0 && idx >= 0:
			out = append(out[:idx], out[idx+1:]...)
		case u.Power == 0:
		case idx >= 0:
			out[idx].Power = u.Power
		default:
			out = append(out, abci.Validator{Address: addr, Power: u.Power})
		}
	}
	sortVals(out)
	return out
}

func cryptoencPubKey(u abci.ValidatorUpdate) (tmcrypto.PubKey, error) {
	return cryptoenc.PubKeyFromProto(u.PubKey)
}

// CopyDB copies every key of a MemDB into a fresh MemDB.
func CopyDB(src dbm.DB) dbm.DB {
	dst := dbm.NewMemDB()
	it, err := src.Iterator(nil, nil)
	if err != nil {
		panic(err)
	}
	defer it.Close()
	for ; it.Valid(); it.Next() {
		k := append([]byte{}, it.Key()...)
		v := append([]byte{}, it.Value()...)
		if err := dst.Set(k, v); err != nil {
			panic(err)
		}
	}
	return dst
}

// Fork opens an independent node on a copy of the committed database. Must be called at a block boundary.
func (n *Node) Fork() *Node {
	if n.InBlock {
		panic("Fork inside a block")
	}
	db := CopyDB(n.DB)
	return n.reopen(db)
}

// Restart opens a new application instance on the same database object (the old instance must not be used again).
func (n *Node) Restart() *Node {
	if n.InBlock {
		panic("Restart inside a block")
	}
	return n.reopen(n.DB)
}

func (n *Node) reopen(db dbm.DB) *Node {
	a := newApp(db, n.ChainID, n.Opts.LocalConfig)
	m := &Node{App: a, DB: db, ChainID: n.ChainID, Opts: n.Opts, Header: n.Header,
		ValsCur: cloneVals(n.ValsCur), ValsNext: cloneVals(n.ValsNext), ValsNN: cloneVals(n.ValsNN)}
	m.LastVotes = make([]abci.VoteInfo, len(n.LastVotes))
	copy(m.LastVotes, n.LastVotes)
	return m
}

// ValOp returns the operator account of genesis validator i.
func ValOp(i int) Account { return Acct(fmt.Sprintf("valop%d", i)) }

// ValCons returns the consensus address of genesis validator i.
func ValCons(i int) sdk.ConsAddress { return sdk.ConsAddress(valKey(i).PubKey().Address()) }

// DumpStores returns every key/value of every IAVL store of the last committed state, keyed by store name.
func (n *Node) DumpStores() map[string]map[string][]byte {
	cms := n.App.CommitMultiStore()
	byName := cms.(interface {
		StoreKeysByName() map[string]storetypes.StoreKey
	}).StoreKeysByName()
	out := map[string]map[string][]byte{}
	for name, key := range byName {
		if _, ok := key.(*storetypes.KVStoreKey); !ok {
			continue
		}
		st := cms.GetKVStore(key)
		m := map[string][]byte{}
		it := st.Iterator(nil, nil)
		for ; it.Valid(); it.Next() {
			m[string(it.Key())] = append([]byte{}, it.Value()...)
		}
		it.Close()
		out[name] = m
	}
	return out
}

// Diff describes one differing key between two store dumps.
type Diff struct {
	Store string
	Key   []byte
	A, B  []byte
}

// DiffStores lists the keys whose values differ between two dumps (sorted by store, key).
func DiffStores(a, b map[string]map[string][]byte) []Diff {
	var out []Diff
	names := map[string]bool{}
	for k := range a {
		names[k] = true
	}
	for k := range b {
		names[k] = true
	}
	var ns []string
	for k := range names {
		ns = append(ns, k)
	}
	sort.Strings(ns)
	for _, name := range ns {
		keys := map[string]bool{}
		for k := range a[name] {
			keys[k] = true
		}
		for k := range b[name] {
			keys[k] = true
		}
		var ks []string
		for k := range keys {
			ks = append(ks, k)
		}
		sort.Strings(ks)
		for _, k := range ks {
			va, oka := a[name][k]
			vb, okb := b[name][k]
			if oka != okb || string(va) != string(vb) {
				out = append(out, Diff{Store: name, Key: []byte(k), A: va, B: vb})
			}
		}
	}
	return out
}

func (d Diff) String() string {
	return fmt.Sprintf("%s/%X: %X -> %X", d.Store, d.Key, d.A, d.B)
}

// InstallCode writes contract code at addr through the EVM StateDB of the block in progress (like a deployment
// without running init code). Must be called inside a block.
func (n *Node) InstallCode(addr common.Address, code []byte) {
	ctx := n.Ctx()
	db := statedb.New(ctx, n.App.EvmKeeper, statedb.NewEmptyTxConfig(common.BytesToHash(ctx.HeaderHash().Bytes())))
	db.SetCode(addr, code)
	if err := db.Commit(); err != nil {
		panic(err)
	}
}

// Storage reads a contract storage slot from the deliver state.
func (n *Node) Storage(addr common.Address, slot common.Hash) common.Hash {
	return n.App.EvmKeeper.GetState(n.Ctx(), addr, slot)
}

// Balance reads the native balance from the deliver state.
func (n *Node) Balance(addr sdk.AccAddress) *big.Int {
	return n.App.BankKeeper.GetBalance(n.Ctx(), addr, Denom).Amount.BigInt()
}

// Supply reads the native total supply from the deliver state.
func (n *Node) Supply() *big.Int {
	return n.App.BankKeeper.GetSupply(n.Ctx(), Denom).Amount.BigInt()
}

// NewNodeFromExport initialises a fresh application from an exported genesis (as `InitChain` after an export at a
// non-zero height does) and commits. The returned error string is non-empty if InitChain panicked.
func NewNodeFromExport(exp servertypes.ExportedApp, old *Node) (m *Node, perr string) {
	defer func() {
		if r := recover(); r != nil {
			perr = fmt.Sprint(r)
		}
	}()
	db := dbm.NewMemDB()
	a := newApp(db, old.ChainID, old.Opts.LocalConfig)
	var vals []abci.ValidatorUpdate
	var tmVals []abci.Validator
	for _, v := range exp.Validators {
		pk, err := cryptoenc.PubKeyToProto(v.PubKey)
		if err != nil {
			panic(err)
		}
		vals = append(vals, abci.ValidatorUpdate{PubKey: pk, Power: v.Power})
		tmVals = append(tmVals, abci.Validator{Address: v.PubKey.Address(), Power: v.Power})
	}
	a.InitChain(abci.RequestInitChain{
		Time: old.Header.Time, ChainId: old.ChainID, Validators: vals,
		ConsensusParams: exp.ConsensusParams, AppStateBytes: exp.AppState, InitialHeight: exp.Height,
	})
	a.Commit()
	sortVals(tmVals)
	m = &Node{App: a, DB: db, ChainID: old.ChainID, Opts: old.Opts,
		Header:  tmproto.Header{ChainID: old.ChainID, Height: a.LastBlockHeight(), Time: old.Header.Time, AppHash: a.LastCommitID().Hash},
		ValsCur: tmVals, ValsNext: cloneVals(tmVals), ValsNN: cloneVals(tmVals)}
	return m, ""
}
