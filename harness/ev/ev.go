// Package ev collects what a property run actually covered (cases, distinct non-trivial cases by the
// property's stated rule, class histogram, samples), attributes discrepancies to keys, separates known
// findings from violations, and writes per-shard statistics that bin/check merges into evidence/<ID>.json.
package ev

import (
	"crypto/sha256"
	"encoding/binary"
	"encoding/hex"
	"encoding/json"
	"fmt"
	"os"
	"path/filepath"
	"sort"
	"strconv"
	"strings"
	"sync"
)

// Finding is one line of /verif/known_findings.json.
type Finding struct {
	Property string `json:"property"`
	Key      string `json:"key"`
	Status   string `json:"status"` // known | fixed
	Commit   string `json:"commit,omitempty"`
	What     string `json:"what"`
}

type sample struct {
	Hash string          `json:"hash"`
	Case json.RawMessage `json:"case"`
}

type Violation struct {
	Key    string `json:"key"`
	Replay string `json:"replay"`
	What   string `json:"what"`
}

type KnownHit struct {
	Count   int    `json:"count"`
	Example string `json:"example"`
}

// Stats is safe for concurrent use.
type Stats struct {
	mu          sync.Mutex
	Property    string
	Test        string
	Rule        string
	evaluations int
	nontrivial  map[uint64]struct{}
	classes     map[string]int
	samples     []sample
	known       map[string]Finding
	knownHits   map[string]*KnownHit
	violations  map[string]Violation
	excluded    map[string]int
	notes       []string
	Exhaustive  bool
}

func verifRoot() string {
	if r := os.Getenv("VERIF_ROOT"); r != "" {
		return r
	}
	return "/verif"
}

func Root() string { return verifRoot() }

func Tier() string {
	if os.Getenv("VERIF_TIER") == "thorough" {
		return "thorough"
	}
	return "quick"
}

func Thorough() bool { return Tier() == "thorough" }

func Seed() uint64 {
	v, _ := strconv.ParseUint(os.Getenv("VERIF_SEED"), 10, 64)
	return v
}

func Shard() (i, n int) {
	i, _ = strconv.Atoi(os.Getenv("VERIF_SHARD"))
	n, _ = strconv.Atoi(os.Getenv("VERIF_SHARDS"))
	if n <= 0 {
		n = 1
	}
	return
}

// DeriveSeed maps (VERIF_SEED, labels..., shard) to a non-zero rapid seed.
func DeriveSeed(labels ...string) uint64 {
	i, _ := Shard()
	h := sha256.Sum256([]byte(fmt.Sprintf("%d|%s|%d", Seed(), strings.Join(labels, "|"), i)))
	s := binary.BigEndian.Uint64(h[:8])
	if s == 0 {
		s = 1
	}
	return s
}

func LoadKnown(property string) map[string]Finding {
	out := map[string]Finding{}
	path := os.Getenv("VERIF_KNOWN")
	if path == "" {
		path = filepath.Join(verifRoot(), "known_findings.json")
	}
	b, err := os.ReadFile(path)
	if err != nil {
		return out
	}
	var all []Finding
	if err := json.Unmarshal(b, &all); err != nil {
		panic("known_findings.json: " + err.Error())
	}
	for _, f := range all {
		if f.Property == property && f.Status == "known" {
			out[f.Key] = f
		}
	}
	return out
}

func New(property, test, rule string) *Stats {
	return &Stats{
		Property: property, Test: test, Rule: rule,
		nontrivial: map[uint64]struct{}{}, classes: map[string]int{},
		known: LoadKnown(property), knownHits: map[string]*KnownHit{},
		violations: map[string]Violation{}, excluded: map[string]int{},
	}
}

func HashJSON(v any) (string, uint64, []byte) {
	b, err := json.Marshal(v)
	if err != nil {
		panic(err)
	}
	h := sha256.Sum256(b)
	return hex.EncodeToString(h[:8]), binary.BigEndian.Uint64(h[:8]), b
}

func (s *Stats) Eval() {
	s.mu.Lock()
	s.evaluations++
	s.mu.Unlock()
}

func (s *Stats) Class(names ...string) {
	s.mu.Lock()
	for _, n := range names {
		s.classes[n]++
	}
	s.mu.Unlock()
}

func (s *Stats) Excluded(key string) {
	s.mu.Lock()
	s.excluded[key]++
	s.mu.Unlock()
}

func (s *Stats) Note(n string) {
	s.mu.Lock()
	s.notes = append(s.notes, n)
	s.mu.Unlock()
}

const maxSamples = 6

// NonTrivial records the case (any JSON-serialisable value) as non-trivial by the property's rule.
func (s *Stats) NonTrivial(c any) {
	hs, hv, b := HashJSON(c)
	s.mu.Lock()
	defer s.mu.Unlock()
	if _, ok := s.nontrivial[hv]; ok {
		return
	}
	s.nontrivial[hv] = struct{}{}
	if len(b) > 6000 {
		return
	}
	// keep the maxSamples smallest hashes: deterministic and mergeable across shards
	s.samples = append(s.samples, sample{Hash: hs, Case: b})
	sort.Slice(s.samples, func(i, j int) bool { return s.samples[i].Hash < s.samples[j].Hash })
	if len(s.samples) > maxSamples {
		s.samples = s.samples[:maxSamples]
	}
}

// IsKnown tells whether key is a listed known finding (status "known") of this property.
func (s *Stats) IsKnown(key string) bool {
	_, ok := s.known[key]
	return ok
}

// Discrepancy attributes one oracle discrepancy of a case to a key. It returns a non-empty message if the
// key is NOT a listed known finding (the caller must then fail the property); known keys are only counted.
// The case is written to replays/<ID>/<key>.json in both situations (known: under replays/<ID>/known/).
func (s *Stats) Discrepancy(key, what string, c any) string {
	_, _, b := HashJSON(c)
	s.mu.Lock()
	defer s.mu.Unlock()
	_, listed := s.known[key]
	if !listed && os.Getenv("VERIF_COLLECT") != "" {
		listed = true // development aid: enumerate every discrepancy key of a campaign instead of stopping at the first
	}
	if listed {
		h := s.knownHits[key]
		if h == nil {
			h = &KnownHit{Example: what}
			s.knownHits[key] = h
			// keep the first reproducing case of every listed finding as a replay file
			dir := filepath.Join(verifRoot(), "replays", s.Property, "known")
			_ = os.MkdirAll(dir, 0o755)
			doc := map[string]any{"property": s.Property, "test": s.Test, "key": key, "what": what, "case": json.RawMessage(b)}
			out, _ := json.MarshalIndent(doc, "", " ")
			// (an existing file is kept: the committed reproduction stays the same across runs, seeds and shards)
			if path := filepath.Join(dir, sanitize(key)+"."+s.Test+".json"); !fileExists(path) {
				_ = os.WriteFile(path, out, 0o644)
			}
		}
		h.Count++
		return ""
	}
	dir := filepath.Join(verifRoot(), "replays", s.Property)
	_ = os.MkdirAll(dir, 0o755)
	i, _ := Shard()
	path := filepath.Join(dir, fmt.Sprintf("%s.%s.s%d.json", sanitize(key), s.Test, i))
	doc := map[string]any{"property": s.Property, "test": s.Test, "key": key, "what": what, "case": json.RawMessage(b)}
	out, _ := json.MarshalIndent(doc, "", " ")
	_ = os.WriteFile(path, out, 0o644)
	s.violations[key] = Violation{Key: key, Replay: path, What: what}
	return fmt.Sprintf("VERIF-VIOLATION property=%s key=%s replay=%s :: %s", s.Property, key, path, what)
}

func fileExists(p string) bool {
	_, err := os.Stat(p)
	return err == nil
}

func sanitize(k string) string {
	r := strings.NewReplacer("/", "_", ":", "-", " ", "_", "=", "-", "*", "x", "(", "", ")", "", ",", "_")
	k = r.Replace(k)
	if len(k) > 100 {
		k = k[:100]
	}
	return k
}

type shardFile struct {
	Property    string               `json:"property"`
	Test        string               `json:"test"`
	Rule        string               `json:"rule"`
	Shard       int                  `json:"shard"`
	Evaluations int                  `json:"evaluations"`
	Nontrivial  []string             `json:"nontrivial_hashes"`
	Classes     map[string]int       `json:"classes"`
	Samples     []sample             `json:"samples"`
	KnownHits   map[string]*KnownHit `json:"known_hits"`
	Violations  []Violation          `json:"violations"`
	Excluded    map[string]int       `json:"excluded"`
	Notes       []string             `json:"notes"`
	Exhaustive  bool                 `json:"exhaustive"`
}

// Flush writes the shard statistics to $VERIF_STATS_DIR (no-op when unset).
func (s *Stats) Flush() {
	dir := os.Getenv("VERIF_STATS_DIR")
	if dir == "" {
		return
	}
	s.mu.Lock()
	defer s.mu.Unlock()
	i, _ := Shard()
	f := shardFile{Property: s.Property, Test: s.Test, Rule: s.Rule, Shard: i, Evaluations: s.evaluations,
		Classes: s.classes, Samples: s.samples, KnownHits: s.knownHits, Excluded: s.excluded, Notes: s.notes,
		Exhaustive: s.Exhaustive}
	for h := range s.nontrivial {
		f.Nontrivial = append(f.Nontrivial, strconv.FormatUint(h, 16))
	}
	sort.Strings(f.Nontrivial)
	for _, v := range s.violations {
		f.Violations = append(f.Violations, v)
	}
	sort.Slice(f.Violations, func(a, b int) bool { return f.Violations[a].Key < f.Violations[b].Key })
	b, _ := json.Marshal(f)
	_ = os.MkdirAll(dir, 0o755)
	_ = os.WriteFile(filepath.Join(dir, fmt.Sprintf("%s.%s.%d.json", s.Property, s.Test, i)), b, 0o644)
}
