// Package evmasm is a tiny EVM assembler plus a compiler from call-tree descriptions to bytecode.
// There is no solc in the sandbox and the quantifier of several properties is "all contract programs", so the
// programs are generated as data (Frame/Op trees) and compiled here.
package evmasm

import (
	"encoding/binary"
	"fmt"
	"math/big"

	"github.com/ethereum/go-ethereum/common"
	"github.com/ethereum/go-ethereum/core/vm"
)

type fixup struct {
	pos   int
	label string
}

// Asm accumulates bytecode.
type Asm struct {
	buf    []byte
	labels map[string]int
	fixups []fixup
	auto   int
}

func New() *Asm { return &Asm{labels: map[string]int{}} }

func (a *Asm) Op(ops ...vm.OpCode) *Asm {
	for _, o := range ops {
		a.buf = append(a.buf, byte(o))
	}
	return a
}

func (a *Asm) Raw(b []byte) *Asm { a.buf = append(a.buf, b...); return a }

func (a *Asm) Len() int { return len(a.buf) }

// PushBytes pushes 1..32 bytes (minimal PUSHn; empty -> PUSH1 0).
func (a *Asm) PushBytes(b []byte) *Asm {
	for len(b) > 1 && b[0] == 0 {
		b = b[1:]
	}
	if len(b) == 0 {
		b = []byte{0}
	}
	if len(b) > 32 {
		panic("push > 32 bytes")
	}
	a.buf = append(a.buf, byte(vm.PUSH1)+byte(len(b)-1))
	a.buf = append(a.buf, b...)
	return a
}

func (a *Asm) Push(v uint64) *Asm {
	var b [8]byte
	binary.BigEndian.PutUint64(b[:], v)
	return a.PushBytes(b[:])
}

func (a *Asm) PushBig(v *big.Int) *Asm { return a.PushBytes(v.Bytes()) }

func (a *Asm) PushAddr(addr common.Address) *Asm {
	a.buf = append(a.buf, byte(vm.PUSH20))
	a.buf = append(a.buf, addr.Bytes()...)
	return a
}

// Label defines a jump destination here.
func (a *Asm) Label(name string) *Asm {
	a.labels[name] = len(a.buf)
	return a.Op(vm.JUMPDEST)
}

func (a *Asm) NewLabel() string {
	a.auto++
	return fmt.Sprintf("L%d", a.auto)
}

// PushLabel pushes the (2-byte) position of a label, resolved at Bytes().
func (a *Asm) PushLabel(name string) *Asm {
	a.buf = append(a.buf, byte(vm.PUSH2))
	a.fixups = append(a.fixups, fixup{pos: len(a.buf), label: name})
	a.buf = append(a.buf, 0, 0)
	return a
}

func (a *Asm) Jump(name string) *Asm  { return a.PushLabel(name).Op(vm.JUMP) }
func (a *Asm) Jumpi(name string) *Asm { return a.PushLabel(name).Op(vm.JUMPI) }

func (a *Asm) Bytes() []byte {
	out := append([]byte{}, a.buf...)
	for _, f := range a.fixups {
		p, ok := a.labels[f.label]
		if !ok {
			panic("undefined label " + f.label)
		}
		binary.BigEndian.PutUint16(out[f.pos:], uint16(p))
	}
	return out
}

// MStoreBytes writes data into memory starting at offset (32-byte words, tail zero-padded).
func (a *Asm) MStoreBytes(offset uint64, data []byte) *Asm {
	for i := 0; i < len(data); i += 32 {
		var w [32]byte
		copy(w[:], data[i:min(i+32, len(data))])
		a.buf = append(a.buf, byte(vm.PUSH32))
		a.buf = append(a.buf, w[:]...)
		a.Push(offset + uint64(i)).Op(vm.MSTORE)
	}
	return a
}

func min(a, b int) int {
	if a < b {
		return a
	}
	return b
}

// InitCode wraps runtime code into init code that returns it (CODECOPY + RETURN).
func InitCode(runtime []byte) []byte {
	a := New()
	// PUSH2 len, PUSH2 offset, PUSH1 0, CODECOPY, PUSH2 len, PUSH1 0, RETURN
	hdr := 2 + 3 + 3 + 1 + 3 + 2 + 1 // bytes of the prologue below: PUSH1 0? computed precisely next
	_ = hdr
	prologue := func(off int) []byte {
		p := New()
		p.buf = append(p.buf, byte(vm.PUSH2), byte(len(runtime)>>8), byte(len(runtime)))
		p.buf = append(p.buf, byte(vm.PUSH2), byte(off>>8), byte(off))
		p.buf = append(p.buf, byte(vm.PUSH1), 0, byte(vm.CODECOPY))
		p.buf = append(p.buf, byte(vm.PUSH2), byte(len(runtime)>>8), byte(len(runtime)))
		p.buf = append(p.buf, byte(vm.PUSH1), 0, byte(vm.RETURN))
		return p.buf
	}
	off := len(prologue(0))
	a.Raw(prologue(off)).Raw(runtime)
	return a.Bytes()
}
