package evmasm

import (
	"fmt"
	"math/big"

	"github.com/ethereum/go-ethereum/common"
	"github.com/ethereum/go-ethereum/core/vm"
)

// Op is one step of a frame. All fields are plain data so that programs serialise into replay files.
type Op struct {
	Kind string `json:"kind"` // pre | call | sstore | log | send | revert | invalid | burn | selfdestruct | stop | create
	// create: CallOp "" = CREATE, "CREATE2" (salt = Key); Val selects the init code (CreateInit); Value is attached.
	CallOp string `json:"call_op,omitempty"` // CALL | STATICCALL | DELEGATECALL | CALLCODE (pre, call)
	Target string `json:"target,omitempty"`  // hex address (pre: the precompile; send/selfdestruct: beneficiary)
	Child  int    `json:"child,omitempty"`   // call: index of the callee frame
	Data   string `json:"data,omitempty"`    // hex calldata (pre)
	Value  string `json:"value,omitempty"`   // decimal wei attached (pre, call, send)
	GasCap uint64 `json:"gas_cap,omitempty"` // 0 = forward all available gas
	Key    uint64 `json:"key,omitempty"`
	Val    uint64 `json:"val,omitempty"`
	Loop   uint64 `json:"loop,omitempty"`
	Note   string `json:"note,omitempty"` // free text for the reader (method name etc.)
	// NoRecord: do not store the success flag (the frame then leaves no journal entry of its own after the call).
	NoRecord bool `json:"no_record,omitempty"`
	// ValueAll: attach the executing context's whole balance (SELFBALANCE) instead of Value.
	ValueAll bool `json:"value_all,omitempty"`
	// Alt (call): pass one byte of calldata so that the callee runs its Alt body; the callee may then be any frame,
	// also an earlier one or the caller itself.
	Alt bool `json:"alt_entry,omitempty"`
}

type Frame struct {
	Ops []Op `json:"ops"`
	// Alt, if present, is the body the frame runs when it is called with non-empty calldata (a second entry point:
	// lets a contract be re-entered, from any depth, with a different behaviour). Alt bodies contain no call ops.
	Alt []Op `json:"alt,omitempty"`
}

// Program: Frames[0] is the contract the transaction calls.
type Program struct {
	Frames []Frame `json:"frames"`
}

// FrameAddr is the deterministic address frame i is installed at.
func FrameAddr(i int) common.Address {
	var a common.Address
	copy(a[:], []byte{0xc0, 0xde, 0xc0, 0xde})
	a[19] = byte(i + 1)
	return a
}

// ResultSlot is the storage slot (in the storage context the frame executes in) that receives the success flag
// (1/0, stored as flag+1 so that "not reached" = 0 is distinguishable) of op j of frame i.
func ResultSlot(i, j int) common.Hash {
	return common.BigToHash(big.NewInt(int64(0x100000 + i*0x1000 + j)))
}

// AltBase is the op index offset of Alt-body ops in ResultSlot.
const AltBase = 100

func hexBytes(s string) []byte {
	return common.FromHex(s)
}

func bigOf(s string) *big.Int {
	if s == "" {
		return new(big.Int)
	}
	v, ok := new(big.Int).SetString(s, 10)
	if !ok {
		panic("bad value " + s)
	}
	return v
}

// CreateInit returns the init code a create op deploys with: mode 0 reverts (nothing is created), mode 1 returns a
// one-byte runtime (STOP), mode 2 first writes storage slot 1 of the new contract and then returns that runtime.
func CreateInit(mode int) []byte {
	ret := []byte{0x60, 0x00, 0x60, 0x00, 0x53, 0x60, 0x01, 0x60, 0x00, 0xf3}
	switch mode % 3 {
	case 0:
		return []byte{0x60, 0x00, 0x60, 0x00, 0xfd}
	case 1:
		return ret
	default:
		return append([]byte{0x60, 0x07, 0x60, 0x01, 0x55}, ret...)
	}
}

// Compile returns the runtime bytecode of every frame.
func (p Program) Compile() [][]byte {
	out := make([][]byte, len(p.Frames))
	for i, f := range p.Frames {
		a := New()
		if len(f.Alt) > 0 {
			a.Op(vm.CALLDATASIZE)
			a.Jumpi("alt")
		}
		body := f.Ops
		base := 0
	emit:
		for jj, op := range body {
			j := base + jj
			switch op.Kind {
			case "pre", "call", "send":
				var target common.Address
				var data []byte
				switch op.Kind {
				case "pre":
					target, data = common.HexToAddress(op.Target), hexBytes(op.Data)
				case "call":
					if op.Alt {
						if base != 0 || op.Child < 0 || op.Child >= len(p.Frames) || len(p.Frames[op.Child].Alt) == 0 {
							panic(fmt.Sprintf("frame %d op %d: alt-entry call to %d not possible", i, j, op.Child))
						}
						data = []byte{1}
					} else if op.Child <= i || op.Child >= len(p.Frames) {
						panic(fmt.Sprintf("frame %d op %d: child %d out of range (calls go to later frames only)", i, j, op.Child))
					}
					target = FrameAddr(op.Child)
				default:
					target = common.HexToAddress(op.Target)
				}
				a.MStoreBytes(0, data)
				callOp := vm.CALL
				switch op.CallOp {
				case "STATICCALL":
					callOp = vm.STATICCALL
				case "DELEGATECALL":
					callOp = vm.DELEGATECALL
				case "CALLCODE":
					callOp = vm.CALLCODE
				}
				// stack (top first): gas, addr, [value], inOff, inSize, outOff, outSize
				a.Push(0).Push(0).Push(uint64(len(data))).Push(0)
				if callOp == vm.CALL || callOp == vm.CALLCODE {
					if op.ValueAll {
						a.Op(vm.SELFBALANCE)
					} else {
						a.PushBig(bigOf(op.Value))
					}
				}
				a.PushAddr(target)
				if op.Kind == "send" {
					a.Push(0)
				} else if op.GasCap > 0 {
					a.Push(op.GasCap)
				} else {
					a.Op(vm.GAS)
				}
				a.Op(callOp)
				if op.NoRecord {
					a.Op(vm.POP)
				} else {
					// record flag+1
					a.Push(1).Op(vm.ADD)
					a.PushBytes(ResultSlot(i, j).Bytes()).Op(vm.SSTORE)
				}
			case "create":
				init := CreateInit(int(op.Val))
				a.MStoreBytes(0, init)
				if op.CallOp == "CREATE2" {
					a.Push(op.Key)
				}
				a.Push(uint64(len(init))).Push(0).PushBig(bigOf(op.Value))
				if op.CallOp == "CREATE2" {
					a.Op(vm.CREATE2)
				} else {
					a.Op(vm.CREATE)
				}
				if op.NoRecord {
					a.Op(vm.POP)
				} else {
					a.Op(vm.ISZERO, vm.ISZERO).Push(1).Op(vm.ADD)
					a.PushBytes(ResultSlot(i, j).Bytes()).Op(vm.SSTORE)
				}
			case "sstore":
				a.Push(op.Val).Push(op.Key).Op(vm.SSTORE)
			case "log":
				a.Push(op.Key).Push(0).Push(0).Op(vm.LOG1)
			case "revert":
				a.Push(0).Push(0).Op(vm.REVERT)
			case "invalid":
				a.Op(vm.INVALID)
			case "stop":
				a.Op(vm.STOP)
			case "selfdestruct":
				a.PushAddr(common.HexToAddress(op.Target)).Op(vm.SELFDESTRUCT)
			case "burn":
				l := a.NewLabel()
				a.Push(op.Loop + 1)
				a.Label(l)
				a.Push(1).Op(vm.SWAP1, vm.SUB, vm.DUP1)
				a.Jumpi(l)
				a.Op(vm.POP)
			default:
				panic("unknown op kind " + op.Kind)
			}
		}
		a.Op(vm.STOP)
		if base == 0 && len(f.Alt) > 0 {
			a.Label("alt")
			body, base = f.Alt, AltBase
			goto emit
		}
		out[i] = a.Bytes()
	}
	return out
}
