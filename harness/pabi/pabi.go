// Package pabi loads the precompile ABIs from the repository working tree and packs calldata.
package pabi

import (
	"bytes"
	"encoding/json"
	"fmt"
	"os"
	"path/filepath"
	"sync"

	"github.com/ethereum/go-ethereum/accounts/abi"
	"github.com/ethereum/go-ethereum/common"
)

var (
	StakingAddr      = common.HexToAddress("0x0000000000000000000000000000000000000800")
	DistributionAddr = common.HexToAddress("0x0000000000000000000000000000000000000801")
	ICS20Addr        = common.HexToAddress("0x0000000000000000000000000000000000000802")
	BankAddr         = common.HexToAddress("0x0000000000000000000000000000000000000804")
)

var (
	once sync.Once
	abis = map[string]abi.ABI{}
)

func repo() string {
	if r := os.Getenv("VERIF_REPO"); r != "" {
		return r
	}
	return "/repo"
}

func load() {
	for _, name := range []string{"staking", "distribution", "ics20", "bank"} {
		bz, err := os.ReadFile(filepath.Join(repo(), "precompiles", name, "abi.json"))
		if err != nil {
			panic(err)
		}
		// the file is either a bare ABI array or {"abi": [...]}
		var probe map[string]json.RawMessage
		if json.Unmarshal(bz, &probe) == nil && probe["abi"] != nil {
			bz = probe["abi"]
		}
		a, err := abi.JSON(bytes.NewReader(bz))
		if err != nil {
			panic(fmt.Sprintf("%s abi: %v", name, err))
		}
		abis[name] = a
	}
}

func ABI(name string) abi.ABI {
	once.Do(load)
	return abis[name]
}

// Pack packs a call to a precompile method.
func Pack(name, method string, args ...interface{}) []byte {
	bz, err := ABI(name).Pack(method, args...)
	if err != nil {
		panic(fmt.Sprintf("pack %s.%s: %v", name, method, err))
	}
	return bz
}

func Addr(name string) common.Address {
	switch name {
	case "staking":
		return StakingAddr
	case "distribution":
		return DistributionAddr
	case "ics20":
		return ICS20Addr
	case "bank":
		return BankAddr
	}
	panic("unknown precompile " + name)
}
