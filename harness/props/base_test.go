package props

// Shared prepared chains: a prelude is executed once per process, committed, and every case forks it.

import (
	"math/big"
	"sync"

	sdkmath "cosmossdk.io/math"
	sdk "github.com/cosmos/cosmos-sdk/types"

	"verif/chain"
)

var (
	baseMu    sync.Mutex
	baseNodes = map[string]*chain.Node{}
)

// baseChain returns the committed prelude node for name (built once). Callers must Fork() it.
func baseChain(name string, build func() *chain.Node) *chain.Node {
	baseMu.Lock()
	defer baseMu.Unlock()
	if n, ok := baseNodes[name]; ok {
		return n
	}
	n := build()
	if n.InBlock {
		n.EndBlockCommit()
	}
	baseNodes[name] = n
	return n
}

var (
	gwei10     = big.NewInt(10_000_000_000) // gas price used by default: 10x the initial base fee
	oneISLM    = new(big.Int).Exp(big.NewInt(10), big.NewInt(18), nil)
	defaultGas = uint64(200000)
)

func coinsOfGas(gas uint64, price *big.Int) sdk.Coins {
	return sdk.NewCoins(sdk.NewCoin(chain.Denom, sdkmath.NewIntFromBigInt(new(big.Int).Mul(price, new(big.Int).SetUint64(gas)))))
}

func islm(n int64) sdk.Coin {
	return sdk.NewCoin(chain.Denom, sdkmath.NewIntFromBigInt(new(big.Int).Mul(oneISLM, big.NewInt(n))))
}
