package props

// Query battery: a fixed list of gRPC queries answered through the app's ABCI Query on the last committed state.
// Two nodes "answer every query identically" iff the response bytes are equal.

import (
	"encoding/json"
	"fmt"
	"math/big"
	"sort"

	abci "github.com/cometbft/cometbft/abci/types"
	"github.com/cosmos/cosmos-sdk/types/query"
	banktypes "github.com/cosmos/cosmos-sdk/x/bank/types"
	"github.com/ethereum/go-ethereum/common"
	"github.com/gogo/protobuf/proto"

	"verif/chain"
	"verif/evmasm"

	coinomicstypes "github.com/haqq-network/haqq/x/coinomics/types"
	epochstypes "github.com/haqq-network/haqq/x/epochs/types"
	erc20types "github.com/haqq-network/haqq/x/erc20/types"
	evmtypes "github.com/haqq-network/haqq/x/evm/types"
	feemarkettypes "github.com/haqq-network/haqq/x/feemarket/types"
	lvtypes "github.com/haqq-network/haqq/x/liquidvesting/types"
	ucdaotypes "github.com/haqq-network/haqq/x/ucdao/types"
	vestingtypes "github.com/haqq-network/haqq/x/vesting/types"
)

type bq struct {
	Name string
	Path string
	Req  proto.Message
}

func battery(contracts []common.Address) []bq {
	page := &query.PageRequest{Limit: 1000}
	qs := []bq{
		{"evm.params", "/ethermint.evm.v1.Query/Params", &evmtypes.QueryParamsRequest{}},
		{"feemarket.params", "/ethermint.feemarket.v1.Query/Params", &feemarkettypes.QueryParamsRequest{}},
		{"feemarket.basefee", "/ethermint.feemarket.v1.Query/BaseFee", &feemarkettypes.QueryBaseFeeRequest{}},
		{"feemarket.blockgas", "/ethermint.feemarket.v1.Query/BlockGas", &feemarkettypes.QueryBlockGasRequest{}},
		{"erc20.params", "/evmos.erc20.v1.Query/Params", &erc20types.QueryParamsRequest{}},
		{"erc20.pairs", "/evmos.erc20.v1.Query/TokenPairs", &erc20types.QueryTokenPairsRequest{Pagination: page}},
		{"liquidvesting.denoms", "/haqq.liquidvesting.v1.Query/Denoms", &lvtypes.QueryDenomsRequest{Pagination: page}},
		{"ucdao.total", "/haqq.ucdao.v1.Query/TotalBalance", &ucdaotypes.QueryTotalBalanceRequest{Pagination: page}},
		{"ucdao.holders", "/haqq.ucdao.v1.Query/Holders", &ucdaotypes.QueryHoldersRequest{Pagination: page}},
		{"ucdao.params", "/haqq.ucdao.v1.Query/Params", &ucdaotypes.QueryParamsRequest{}},
		{"coinomics.params", "/haqq.coinomics.v1.Query/Params", &coinomicstypes.QueryParamsRequest{}},
		{"coinomics.maxsupply", "/haqq.coinomics.v1.Query/MaxSupply", &coinomicstypes.QueryMaxSupplyRequest{}},
		{"epochs.infos", "/evmos.epochs.v1.Query/EpochInfos", &epochstypes.QueryEpochsInfoRequest{Pagination: page}},
		{"bank.supply", "/cosmos.bank.v1beta1.Query/TotalSupply", &banktypes.QueryTotalSupplyRequest{Pagination: page}},
	}
	accs := append(append([]chain.Account{}, hUsersAccts()...), hVestAccts()...)
	for _, a := range accs {
		qs = append(qs,
			bq{"vesting.balances:" + a.Label, "/haqq.vesting.v1.Query/Balances", &vestingtypes.QueryBalancesRequest{Address: a.Addr.String()}},
			bq{"ucdao.balances:" + a.Label, "/haqq.ucdao.v1.Query/AllBalances", &ucdaotypes.QueryAllBalancesRequest{Address: a.Addr.String(), Pagination: page}},
			bq{"evm.account:" + a.Label, "/ethermint.evm.v1.Query/Account", &evmtypes.QueryAccountRequest{Address: a.Hex.Hex()}},
			bq{"bank.balances:" + a.Label, "/cosmos.bank.v1beta1.Query/AllBalances", &banktypes.QueryAllBalancesRequest{Address: a.Addr.String(), Pagination: page}},
		)
	}
	// EVM executions answered by query: a creation whose init code returns CHAINID (so the answer depends on the chain
	// id the node believes in), with and without an explicit chain id, and a gas estimate of the same
	args, err := json.Marshal(map[string]any{"from": accs[0].Hex.Hex(), "data": "0x4660005260206000f3"})
	if err != nil {
		panic(err)
	}
	prop := chain.ValCons(0).Bytes()
	qs = append(qs,
		bq{"evm.ethcall:chainid-opcode", "/ethermint.evm.v1.Query/EthCall", &evmtypes.EthCallRequest{Args: args, GasCap: 1000000, ProposerAddress: prop}},
		bq{"evm.ethcall:chainid-opcode:explicit", "/ethermint.evm.v1.Query/EthCall", &evmtypes.EthCallRequest{Args: args, GasCap: 1000000, ProposerAddress: prop, ChainId: 11235}},
		bq{"evm.estimategas:create", "/ethermint.evm.v1.Query/EstimateGas", &evmtypes.EthCallRequest{Args: args, GasCap: 1000000, ProposerAddress: prop}},
	)
	cs := append([]common.Address{}, contracts...)
	for i := 0; i < 4; i++ {
		cs = append(cs, evmasm.FrameAddr(i))
	}
	for _, c := range cs {
		qs = append(qs,
			bq{"evm.code:" + c.Hex(), "/ethermint.evm.v1.Query/Code", &evmtypes.QueryCodeRequest{Address: c.Hex()}},
			bq{"evm.account:" + c.Hex(), "/ethermint.evm.v1.Query/Account", &evmtypes.QueryAccountRequest{Address: c.Hex()}},
		)
		for s := 0; s < 4; s++ {
			qs = append(qs, bq{fmt.Sprintf("evm.storage:%s:%d", c.Hex(), s), "/ethermint.evm.v1.Query/Storage", &evmtypes.QueryStorageRequest{Address: c.Hex(), Key: common.BigToHash(big.NewInt(int64(s))).Hex()}})
		}
	}
	return qs
}

// runBattery returns name -> response (code|value hex).
func runBattery(n *chain.Node, contracts []common.Address) map[string]string {
	out := map[string]string{}
	for _, q := range battery(contracts) {
		data, err := proto.Marshal(q.Req)
		if err != nil {
			panic(err)
		}
		res := n.App.Query(abci.RequestQuery{Path: q.Path, Data: data})
		out[q.Name] = fmt.Sprintf("%d|%x", res.Code, res.Value)
		if res.Code != 0 {
			out[q.Name] = fmt.Sprintf("%d|%s", res.Code, res.Log)
		}
	}
	return out
}

func diffBattery(a, b map[string]string) []string {
	var out []string
	for k, v := range a {
		if b[k] != v {
			out = append(out, k)
		}
	}
	for k := range b {
		if _, ok := a[k]; !ok {
			out = append(out, k)
		}
	}
	sort.Strings(out)
	return out
}
