package props

// C01 — replicas agree on every block; C20 — restart at any block boundary changes nothing;
// C19 — exported genesis re-imports to the same state. All three consume block histories (hist_test.go).

import (
	"bytes"
	"encoding/hex"
	"encoding/json"
	"fmt"
	"os"
	"os/exec"
	"path/filepath"
	"reflect"
	"sort"
	"strings"
	"sync"
	"testing"
	"time"

	abci "github.com/cometbft/cometbft/abci/types"
	tmproto "github.com/cometbft/cometbft/proto/tendermint/types"
	"pgregory.net/rapid"

	epochstypes "github.com/haqq-network/haqq/x/epochs/types"

	"verif/chain"
	"verif/ev"
)

// ---------------------------------------------------------------------------------------------------------
// C01

type c01Feed struct {
	History History     `json:"history"`
	Blocks  []BlockFeed `json:"blocks"` // resolved governance ops and tx bytes per block
}

// runFed executes the history on a fresh node, delivering the given bytes; perturb adds inputs that must not matter.
func runFed(h History, blocks []BlockFeed, perturb bool, concurrent bool) []BlockTrace {
	if perturb {
		// construction order: build (and drop) other app instances first
		for i := 0; i < 2; i++ {
			chain.NewNode(chain.Opts{NumVals: 1 + i})
		}
	}
	o := hOpts(h)
	if perturb {
		// the host's time zone is far from replica A's (UTC): the calendar date of a block differs between the two
		prev := time.Local
		time.Local = time.FixedZone("east", 14*3600)
		defer func() { time.Local = prev }()
	}
	if perturb {
		// node-local configuration differs from replica A's defaults
		o.LocalConfig = map[string]interface{}{"evm.max-tx-gas-wanted": uint64(100000), "minimum-gas-prices": "5aISLM", "evm.tracer": "", "json-rpc.gas-cap": uint64(1000)}
	}
	n := chain.NewNode(o)
	r := newHRunner(n)
	var traces []BlockTrace
	var wg sync.WaitGroup
	stop := make(chan struct{})
	if concurrent {
		// harness-owned schedule perturbation: hammer the node with queries while blocks execute
		for g := 0; g < 3; g++ {
			wg.Add(1)
			go func() {
				defer wg.Done()
				for {
					select {
					case <-stop:
						return
					default:
						func() {
							defer func() { _ = recover() }()
							runBattery(n, nil)
						}()
					}
				}
			}()
		}
	}
	for i, b := range h.Blocks {
		if perturb {
			for _, tx := range blocks[i].Txs {
				n.CheckTx(tx)
				n.App.CheckTx(abci.RequestCheckTx{Tx: tx, Type: abci.CheckTxType_Recheck})
				func() {
					defer func() { _ = recover() }()
					_, _, _ = n.App.Simulate(tx)
				}()
			}
			n.CheckTx([]byte("garbage that is not a transaction"))
			runBattery(n, r.st.Contracts)
			if i%2 == 1 {
				func() {
					defer func() { _ = recover() }()
					_, _ = n.App.ExportAppStateAndValidators(false, nil, nil)
				}()
			}
		}
		tr, _ := r.RunBlock(b, &blocks[i])
		traces = append(traces, tr)
		if perturb && i%3 == 1 && !n.InBlock {
			// the process is stopped and started again on its database (everything held only in memory is gone)
			n = n.Restart()
			r.n = n
		}
	}
	close(stop)
	wg.Wait()
	return traces
}

func compareTraces(a, b []BlockTrace) (bool, string, bool) {
	if len(a) != len(b) {
		return false, fmt.Sprintf("%d vs %d blocks", len(a), len(b)), false
	}
	for i := range a {
		if ok, why := a[i].Equal(b[i]); !ok {
			return false, why, strings.Contains(why, "events-only")
		}
	}
	return true, "", false
}

func runC01(st *ev.Stats, h History) string {
	st.Eval()
	fail := func(key, what string) string { return st.Discrepancy(key, what, h) }
	// replica A builds the transactions
	na := chain.NewNode(hOpts(h))
	ra := newHRunner(na)
	var ta []BlockTrace
	var blocks []BlockFeed
	for _, b := range h.Blocks {
		tr, fd := ra.RunBlock(b, nil)
		ta = append(ta, tr)
		blocks = append(blocks, fd)
	}
	report := func(kind string, tb []BlockTrace) string {
		ok, why, eventsOnly := compareTraces(ta, tb)
		if ok {
			return ""
		}
		key := "divergence:" + kind
		if eventsOnly {
			key = "events-only:" + kind
		}
		return fail(key, fmt.Sprintf("replica A and %s replica disagree: %s", kind, why))
	}
	if msg := report("independent", runFed(h, blocks, false, false)); msg != "" {
		return msg
	}
	if msg := report("perturbed", runFed(h, blocks, true, false)); msg != "" {
		return msg
	}
	if ev.Thorough() && len(h.Blocks) <= 6 {
		if ok, why, _ := compareTraces(ta, runFed(h, blocks, false, true)); !ok {
			// schedule dependent: only a divergence that shows again on a second run is reported (its replay file would
			// otherwise demonstrate nothing); one that does not is recorded in the evidence
			if msg := report("concurrent-queries", runFed(h, blocks, false, true)); msg != "" {
				return msg
			}
			st.Class("unreproduced-divergence-under-concurrent-queries")
			st.Note("a divergence under concurrent queries did not reproduce on the second run: " + why)
		}
	}
	// separate OS process (different GOMAXPROCS, later wall clock)
	if os.Getenv("VERIF_C01_NOCHILD") == "" {
		tc, err := c01Child(c01Feed{History: h, Blocks: blocks})
		if err != nil {
			st.Note("child replica could not run: " + err.Error())
		} else if msg := report("other-process", tc); msg != "" {
			return msg
		} else {
			st.Class("cross-process")
		}
	}
	haqqOK, _ := histClasses(st, ra)
	kinds := 0
	for _, c := range ra.st.OK {
		if c > 0 {
			kinds++
		}
	}
	_ = haqqOK
	if ra.st.EvmMulti > 0 || kinds >= 3 {
		st.NonTrivial(h)
	}
	return ""
}

func c01Child(feed c01Feed) ([]BlockTrace, error) {
	dir := filepath.Join(ev.Root(), ".build", "c01")
	_ = os.MkdirAll(dir, 0o755)
	f, err := os.CreateTemp(dir, "feed-*.json")
	if err != nil {
		return nil, err
	}
	defer os.Remove(f.Name())
	if err := json.NewEncoder(f).Encode(feed); err != nil {
		return nil, err
	}
	f.Close()
	cmd := exec.Command(os.Args[0], "-test.run", "^TestC01Child$", "-test.v")
	cmd.Env = append(os.Environ(), "VERIF_C01_FEED="+f.Name(), "GOMAXPROCS=2", "VERIF_STATS_DIR=")
	out, err := cmd.Output()
	if err != nil {
		return nil, fmt.Errorf("%v: %s", err, trunc(string(out)))
	}
	i := bytes.Index(out, []byte("C01TRACES:"))
	if i < 0 {
		return nil, fmt.Errorf("no traces in child output: %s", trunc(string(out)))
	}
	line := out[i+len("C01TRACES:"):]
	if j := bytes.IndexByte(line, '\n'); j >= 0 {
		line = line[:j]
	}
	var tr []BlockTrace
	if err := json.Unmarshal(line, &tr); err != nil {
		return nil, err
	}
	return tr, nil
}

// TestC01Child is the replica that runs in a separate process.
func TestC01Child(t *testing.T) {
	path := os.Getenv("VERIF_C01_FEED")
	if path == "" {
		t.Skip("not a child")
	}
	bz, err := os.ReadFile(path)
	must(err)
	var feed c01Feed
	must(json.Unmarshal(bz, &feed))
	time.Local = time.FixedZone("west", -11*3600) // this process lives in another time zone
	tr := runFed(feed.History, feed.Blocks, false, false)
	out, _ := json.Marshal(tr)
	fmt.Printf("C01TRACES:%s\n", out)
}

// ---------------------------------------------------------------------------------------------------------
// C20

type C20Case struct {
	History  History `json:"history"`
	Restarts []int   `json:"restarts"` // block boundaries (1-based: after block k) at which a restarted node is forked off
	Double   bool    `json:"double"`   // restart the restarted node once more one block later
}

func genC20(t *rapid.T) C20Case {
	c := C20Case{History: genHistory(t, 3, 9, hKinds)}
	if rapid.IntRange(0, 2).Draw(t, "all-boundaries") > 0 {
		// every block boundary of the history
		for k := 1; k <= len(c.History.Blocks); k++ {
			c.Restarts = append(c.Restarts, k)
		}
	} else {
		k := rapid.IntRange(1, 3).Draw(t, "nrestarts")
		for i := 0; i < k; i++ {
			c.Restarts = append(c.Restarts, rapid.IntRange(1, len(c.History.Blocks)).Draw(t, "restart-at"))
		}
	}
	c.Double = rapid.Bool().Draw(t, "double")
	return c
}

func runC20(st *ev.Stats, c C20Case) string {
	st.Eval()
	fail := func(key, what string) string { return st.Discrepancy(key, what, c) }
	h := c.History
	n := chain.NewNode(hOpts(h))
	r := newHRunner(n)
	type snap struct {
		fork          *chain.Node
		contracts     int
		battery       map[string]string
		info          abci.ResponseInfo
		paramsChanged bool
	}
	snaps := map[int]snap{}
	want := map[int]bool{}
	for _, k := range c.Restarts {
		want[k] = true
	}
	var traces []BlockTrace
	var blocks []BlockFeed
	after := map[int]map[string]string{} // battery of the uninterrupted node after block i (only from the first restart point on)
	afterContracts := map[int]int{}
	minK := 1 << 30
	for k := range want {
		if k < minK {
			minK = k
		}
	}
	for i, b := range h.Blocks {
		tr, bz := r.RunBlock(b, nil)
		traces = append(traces, tr)
		blocks = append(blocks, bz)
		if i+1 > minK {
			after[i+1] = runBattery(n, r.st.Contracts)
			afterContracts[i+1] = len(r.st.Contracts)
		}
		if want[i+1] {
			// "stopped after committing block i+1": copy the database as it is on disk now
			changed := false
			for _, x := range b.Txs {
				if x.K == "lv-liquidate" || x.K == "gov-submit" || x.K == "eth-create" {
					changed = true
				}
			}
			snaps[i+1] = snap{fork: n.Fork(), contracts: len(r.st.Contracts), battery: runBattery(n, r.st.Contracts), info: n.App.Info(abci.RequestInfo{}), paramsChanged: changed}
		}
	}
	var ks []int
	for k := range snaps {
		ks = append(ks, k)
	}
	sort.Ints(ks)
	for _, k := range ks {
		s := snaps[k]
		// restart = a new application instance on the copied database
		rn := s.fork
		info := rn.App.Info(abci.RequestInfo{})
		if info.LastBlockHeight != s.info.LastBlockHeight || !bytes.Equal(info.LastBlockAppHash, s.info.LastBlockAppHash) {
			return fail("info-after-restart", fmt.Sprintf("restart after block %d: Info reports height %d hash %X, the running node had height %d hash %X", k, info.LastBlockHeight, info.LastBlockAppHash, s.info.LastBlockHeight, s.info.LastBlockAppHash))
		}
		got := runBattery(rn, r.st.Contracts[:s.contracts])
		for _, q := range diffBattery(s.battery, got) {
			// one key per query kind: a listed finding covers that query only
			if msg := fail("query-on-startup:"+strings.SplitN(q, ":", 2)[0], fmt.Sprintf("restart after block %d: query %s answered differently before the first new block: %s vs %s", k, q, trunc(s.battery[q]), trunc(got[q]))); msg != "" {
				return msg
			}
			st.Class("known:query-on-startup:" + strings.SplitN(q, ":", 2)[0])
		}
		rr := newHRunner(rn)
		rr.st.Contracts = append(rr.st.Contracts, r.st.Contracts[:s.contracts]...)
		for i := k; i < len(h.Blocks); i++ {
			if c.Double && i == k+1 {
				rn = rn.Restart()
				rr.n = rn
			}
			tr, _ := rr.RunBlock(h.Blocks[i], &blocks[i])
			if ok, why := tr.Equal(traces[i]); !ok {
				if os.Getenv("VERIF_DEBUG") != "" {
					// re-run the history without a restart up to this block and show which store entries differ
					cn := chain.NewNode(hOpts(h))
					cr := newHRunner(cn)
					for j := 0; j <= i; j++ {
						cr.RunBlock(h.Blocks[j], &blocks[j])
					}
					fmt.Printf("DEBUG C20 traces: continuous(original) %+v\n  restarted %+v\n", traces[i].Txs, tr.Txs)
					for _, d := range chain.DiffStores(cn.DumpStores(), rn.DumpStores()) {
						fmt.Printf("DEBUG C20 store diff (continuous vs restarted) %s\n", trunc(d.String()))
					}
				}
				key := "divergence-after-restart"
				if strings.Contains(why, "events-only") {
					key = "events-only-after-restart"
				}
				return fail(key, fmt.Sprintf("node restarted after block %d diverges: %s", k, why))
			}
			// once a block has been executed both nodes have a full block context: every query must agree
			if d := diffBattery(after[i+1], runBattery(rn, r.st.Contracts[:afterContracts[i+1]])); len(d) > 0 {
				return fail("query-after-restart:"+strings.SplitN(d[0], ":", 2)[0], fmt.Sprintf("restart after block %d, after block %d: queries answered differently: %v", k, i+1, d))
			}
		}
		if s.paramsChanged {
			st.Class("restart-after-registration-or-param-change")
			st.NonTrivial(map[string]any{"history": h, "restart": k})
		}
		st.Class("restart-point")
	}
	histClasses(st, r)
	return ""
}

// ---------------------------------------------------------------------------------------------------------
// C19

func normaliseGenesis(module string, raw json.RawMessage) any {
	var v any
	must(json.Unmarshal(raw, &v))
	if module == "ibc" {
		// the 09-localhost client records the height of the export itself; the two exports happen at different heights
		walk(v, func(m map[string]any) {
			if _, ok := m["latest_height"]; ok {
				m["latest_height"] = "<height>"
			}
		})
	}
	return v
}

func walk(v any, f func(map[string]any)) {
	switch x := v.(type) {
	case map[string]any:
		f(x)
		for _, c := range x {
			walk(c, f)
		}
	case []any:
		for _, c := range x {
			walk(c, f)
		}
	}
}

// diffJSON lists the paths at which two decoded JSON values differ.
func diffJSON(path string, a, b any, out *[]string) {
	if len(*out) > 20 {
		return
	}
	switch x := a.(type) {
	case map[string]any:
		y, ok := b.(map[string]any)
		if !ok {
			*out = append(*out, path)
			return
		}
		keys := map[string]bool{}
		for k := range x {
			keys[k] = true
		}
		for k := range y {
			keys[k] = true
		}
		var ks []string
		for k := range keys {
			ks = append(ks, k)
		}
		sort.Strings(ks)
		for _, k := range ks {
			diffJSON(path+"."+k, x[k], y[k], out)
		}
	case []any:
		y, ok := b.([]any)
		if !ok || len(x) != len(y) {
			*out = append(*out, fmt.Sprintf("%s(len %d vs %v)", path, len(x), lenOf(b)))
			return
		}
		for i := range x {
			diffJSON(fmt.Sprintf("%s[%d]", path, i), x[i], y[i], out)
		}
	default:
		if !reflect.DeepEqual(a, b) {
			*out = append(*out, fmt.Sprintf("%s: %v -> %v", path, trunc(fmt.Sprint(a)), trunc(fmt.Sprint(b))))
		}
	}
}

func lenOf(v any) any {
	if s, ok := v.([]any); ok {
		return len(s)
	}
	return "n/a"
}

func runC19(st *ev.Stats, h History) string {
	st.Eval()
	fail := func(key, what string) string { return st.Discrepancy(key, what, h) }
	n := chain.NewNode(hOpts(h))
	r := newHRunner(n)
	for _, b := range h.Blocks {
		r.RunBlock(b, nil)
	}
	exp, err := n.App.ExportAppStateAndValidators(false, nil, nil)
	if err != nil {
		return fail("export-failed", err.Error())
	}
	if len(exp.Validators) == 0 {
		// every validator was jailed: such a chain has halted and cannot be re-started from any genesis
		st.Class("no-bonded-validator-left")
		return ""
	}
	if os.Getenv("VERIF_DEBUG") != "" {
		fmt.Printf("DEBUG C19 exporting at height %d: ok txs %v\n", n.Header.Height, r.st.OK)
		for _, u := range r.users {
			fmt.Printf("DEBUG C19 dao balance of %s: %s\n", u.Label, n.App.DaoKeeper.GetAccountBalances(n.CheckCtx(), u.Addr))
		}
	}
	// a fresh chain initialised from the export
	m, perr := chain.NewNodeFromExport(exp, n)
	if perr != "" {
		return fail("import-failed", trunc(perr))
	}
	exp2, err := m.App.ExportAppStateAndValidators(false, nil, nil)
	if err != nil {
		return fail("re-export-failed", err.Error())
	}
	var g1, g2 map[string]json.RawMessage
	must(json.Unmarshal(exp.AppState, &g1))
	must(json.Unmarshal(exp2.AppState, &g2))
	var mods []string
	for k := range g1 {
		mods = append(mods, k)
	}
	for k := range g2 {
		if _, ok := g1[k]; !ok {
			mods = append(mods, k)
		}
	}
	sort.Strings(mods)
	for _, mod := range mods {
		var diffs []string
		diffJSON(mod, normaliseGenesis(mod, g1[mod]), normaliseGenesis(mod, g2[mod]), &diffs)
		for _, d := range diffs {
			field := strings.SplitN(strings.SplitN(d, ":", 2)[0], "(", 2)[0]
			// strip indices so that the key names the field, not the instance
			key := "genesis-field:" + stripIdx(field)
			if msg := fail(key, "export -> import -> export changed "+d); msg != "" {
				return msg
			}
			st.Class("known:" + key)
		}
	}
	// the state itself: every KV store of the re-imported chain equals the store of the exporting chain (a field that
	// the export recomputes consistently survives the document round trip above but not this comparison)
	sa, sb := n.DumpStores(), m.DumpStores()
	seenStoreKeys := map[string]bool{}
	for _, d := range chain.DiffStores(sa, sb) {
		if os.Getenv("VERIF_DEBUG") != "" && c19Stores[d.Store] {
			fmt.Printf("DEBUG C19 store diff %s\n", trunc(d.String()))
		}
		prefix := "empty"
		if len(d.Key) > 0 {
			prefix = fmt.Sprintf("%02x", d.Key[0])
		}
		key := "store:" + d.Store + ":" + prefix
		if d.Store == "epochs" && prefix == "01" {
			// an epoch record: the listed finding explains a different start height and nothing else
			var ea, eb epochstypes.EpochInfo
			if d.A == nil || d.B == nil || ea.Unmarshal(d.A) != nil || eb.Unmarshal(d.B) != nil {
				key += ":record-missing-or-unreadable"
			} else {
				ea.CurrentEpochStartHeight, eb.CurrentEpochStartHeight = 0, 0
				if ea.String() != eb.String() {
					key += ":other-fields"
				}
			}
		}
		if seenStoreKeys[key] {
			continue
		}
		seenStoreKeys[key] = true
		if !c19Stores[d.Store] {
			continue
		}
		if msg := fail(key, "store entry differs after export -> import: "+trunc(d.String())); msg != "" {
			return msg
		}
		st.Class("known:" + key)
	}
	// every query answered identically. Queries that run an EVM call or read the block time need a block context,
	// which no freshly started application has before its first block (that is C20's listed finding, not an
	// export/import matter): they are compared after one identical empty block on both nodes.
	needsBlock := map[string]bool{"bank.balances": true, "vesting.balances": true}
	cmp := func(phase string, only bool) string {
		b1, b2 := runBattery(n, r.st.Contracts), runBattery(m, r.st.Contracts)
		for _, q := range diffBattery(b1, b2) {
			name := strings.SplitN(q, ":", 2)[0]
			if needsBlock[name] != only {
				continue
			}
			key := "query:" + name
			if name == "epochs.infos" && c19EpochsDifferBeyondStartHeight(b1[q], b2[q]) {
				key += ":other-fields"
			}
			if msg := fail(key, fmt.Sprintf("%s: query %s answered differently after re-import: %s vs %s", phase, q, trunc(b1[q]), trunc(b2[q]))); msg != "" {
				return msg
			}
			st.Class("known:" + key)
		}
		return ""
	}
	if msg := cmp("at import", false); msg != "" {
		return msg
	}
	for xi, x := range []*chain.Node{n, m} {
		// (the first block of the re-imported chain carries no commit of a previous block; the exporting chain gets the
		// same input, otherwise a pending liveness slash fires one block earlier there)
		bb := x.BeginBlock(chain.BlockIn{NoVotes: true})
		eb, _ := x.EndBlockCommit()
		if os.Getenv("VERIF_DEBUG") != "" {
			for _, e := range append(append([]abci.Event{}, bb.Events...), eb.Events...) {
				fmt.Printf("DEBUG C19 empty block node %d event %s %v\n", xi, e.Type, e.Attributes)
			}
		}
	}
	if msg := cmp("after one empty block", true); msg != "" {
		return msg
	}
	histClasses(st, r)
	feat := 0
	for _, k := range []string{"eth-create", "lv-liquidate", "vest-create", "dao-fund", "eth-call"} {
		if r.st.OK[k] > 0 {
			feat++
		}
	}
	if h.Coinomics {
		feat++
	}
	if feat >= 3 {
		st.NonTrivial(h)
	}
	return ""
}

// c19EpochsDifferBeyondStartHeight decodes two EpochInfos answers ("code|hex") and compares them with the start heights
// masked (the listed finding re-bases exactly that field).
func c19EpochsDifferBeyondStartHeight(a, b string) bool {
	dec := func(s string) (string, bool) {
		parts := strings.SplitN(s, "|", 2)
		if len(parts) != 2 || parts[0] != "0" {
			return "", false
		}
		bz, err := hex.DecodeString(parts[1])
		if err != nil {
			return "", false
		}
		var r epochstypes.QueryEpochsInfoResponse
		if r.Unmarshal(bz) != nil {
			return "", false
		}
		for i := range r.Epochs {
			r.Epochs[i].CurrentEpochStartHeight = 0
		}
		return r.String(), true
	}
	x, ok1 := dec(a)
	y, ok2 := dec(b)
	return !ok1 || !ok2 || x != y
}

// c19Stores: the stores compared byte by byte between the exporting chain and the re-imported chain - the Haqq modules
// named by the property plus accounts and bank. Stores of the upstream SDK / IBC modules keep height-indexed or
// process-local bookkeeping (staking unbonding ids and historical info, ibc localhost client, ICA port binding) that an
// export is not meant to carry; they are covered by the document round trip only.
var c19Stores = map[string]bool{"acc": true, "bank": true, "evm": true, "feemarket": true, "erc20": true, "liquidvesting": true,
	"ucdao": true, "coinomics": true, "epochs": true}

func stripIdx(s string) string {
	var b strings.Builder
	skip := false
	for _, c := range s {
		switch {
		case c == '[':
			skip = true
		case c == ']':
			skip = false
		case !skip:
			b.WriteRune(c)
		}
	}
	return b.String()
}

var _ = tmproto.Header{}

func init() {
	replayers["TestC01_Replicas"] = func(st *ev.Stats, raw json.RawMessage) string {
		var h History
		must(json.Unmarshal(raw, &h))
		return runC01(st, h)
	}
	replayers["TestC20_Restart"] = func(st *ev.Stats, raw json.RawMessage) string {
		var c C20Case
		must(json.Unmarshal(raw, &c))
		return runC20(st, c)
	}
	replayers["TestC19_ExportImport"] = func(st *ev.Stats, raw json.RawMessage) string {
		var h History
		must(json.Unmarshal(raw, &h))
		return runC19(st, h)
	}
}

func TestC01_Replicas(t *testing.T) {
	st := ev.New("C01", "TestC01_Replicas", "block history executed on replica A (builds the txs), an independently constructed replica B, a perturbed replica (CheckTx/ReCheckTx/Simulate of the same txs, garbage CheckTx, query battery, non-zero-height export, other apps constructed first) and a replica in a separate OS process with another GOMAXPROCS; non-trivial = >= 1 successful EVM tx touching >= 2 accounts/slots or >= 3 distinct successful tx kinds")
	runCorpus(t, st)
	runRapid(t, st, 128, 4000, func(rt *rapid.T) {
		if msg := runC01(st, genHistory(rt, 3, 10, hKinds)); msg != "" {
			rt.Fatalf("%s", msg)
		}
	})
}

func TestC20_Restart(t *testing.T) {
	st := ev.New("C20", "TestC20_Restart", "block history plus 1-3 block boundaries at which the database is copied and a new application instance is opened on it (optionally restarted once more a block later); Info, a battery of ~100 queries and all following block traces must equal the uninterrupted node; non-trivial = restart right after a block with a token-pair registration (liquidation), proposal or contract creation")
	runCorpus(t, st)
	runRapid(t, st, 60, 4000, func(rt *rapid.T) {
		if msg := runC20(st, genC20(rt)); msg != "" {
			rt.Fatalf("%s", msg)
		}
	})
}

func TestC19_ExportImport(t *testing.T) {
	st := ev.New("C19", "TestC19_ExportImport", "block history, then export -> InitChain on a fresh app -> export; genesis documents compared module by module (ibc localhost height normalised) and a battery of ~100 queries compared between the two apps; non-trivial = state with >= 3 of: contract with storage, liquid denom/token pair, vesting account, DAO holder, contract call, minting in progress")
	runCorpus(t, st)
	runRapid(t, st, 60, 4000, func(rt *rapid.T) {
		if msg := runC19(st, genHistory(rt, 2, 9, hKinds)); msg != "" {
			rt.Fatalf("%s", msg)
		}
	})
}
