package props

// C02 — EVM execution never mints or burns the native coin.
//
// Case = generated call-tree program (no reverting frames: that is C05's domain) whose frames call the staking,
// distribution and bank precompiles with delegator in {signer, calling contract, third party}, attach value, forward
// value between frames / EOAs before and after the precompile calls, store and log; or a direct EOA -> precompile call.
// Oracles: (1) total supply of the native coin unchanged by the transaction; (2) per-account ledger: every account's
// balance after = before + value received - value sent - fee - delegated + rewards paid to it, computed by a reference
// model driven by the recorded outcome of every inner call and by the pending rewards read from the distribution
// query before the transaction; (3) all registered invariants hold after the block.

import (
	"encoding/json"
	"fmt"
	"math/big"
	"os"
	"sort"
	"testing"

	sdk "github.com/cosmos/cosmos-sdk/types"
	authtypes "github.com/cosmos/cosmos-sdk/x/auth/types"
	distrkeeper "github.com/cosmos/cosmos-sdk/x/distribution/keeper"
	distrtypes "github.com/cosmos/cosmos-sdk/x/distribution/types"
	stakingtypes "github.com/cosmos/cosmos-sdk/x/staking/types"
	"github.com/ethereum/go-ethereum/common"
	"pgregory.net/rapid"

	"verif/chain"
	"verif/ev"
	"verif/evmasm"
	"verif/pabi"

	evmtypes "github.com/haqq-network/haqq/x/evm/types"
)

func decodeEthResponse(data []byte) (string, error) {
	r, err := evmtypes.DecodeTxResponse(data)
	if err != nil {
		return "", err
	}
	return r.VmError, nil
}

type pxModel struct {
	bal       map[string]*big.Int // hex address -> balance
	pending   map[string]*big.Int // delegator|validator -> truncated pending rewards
	hasDel    map[string]bool     // delegator|validator -> delegation exists
	withdraw  map[string]common.Address
	touched   map[string][]string // address -> cosmos-side ops that credited/debited it
	flows     map[string]bool     // addresses whose balance the EVM itself moved in this tx (value > 0)
	// seen: addresses whose state object the EVM had loaded when a given moment of the replay is reached (sender, call
	// targets and value recipients that exist; a probe of an address without an account loads nothing)
	seen   map[string]bool
	exists map[string]bool
	effects   []pxEffect          // cosmos-side coin movements of successful precompile calls
	residue   bool                // a successful precompile call carried value
	curCaller common.Address
}

// pxEffect: a successful precompile call moved coins of Account on the Cosmos side.
type pxEffect struct {
	Method  string // pre.method
	Effect  string // debit | reward-credit
	Account common.Address
	Caller  common.Address // immediate caller of the precompile
	Deleg   common.Address
	Seen    bool // the account's state object was already loaded by the EVM when the precompile moved its coins
}

func addrKey(a common.Address) string { return a.Hex() }

func (m *pxModel) add(a common.Address, v *big.Int) {
	k := addrKey(a)
	if m.bal[k] == nil {
		m.bal[k] = new(big.Int)
	}
	m.bal[k] = new(big.Int).Add(m.bal[k], v)
}

func (m *pxModel) payout(d common.Address, val string, op string) {
	k := d.Hex() + "|" + val
	r := m.pending[k]
	if r == nil || r.Sign() == 0 {
		return
	}
	w, ok := m.withdraw[d.Hex()]
	if !ok {
		w = d
	}
	m.add(w, r)
	m.add(common.BytesToAddress(moduleAddr(distrtypes.ModuleName)), new(big.Int).Neg(r))
	m.touched[w.Hex()] = append(m.touched[w.Hex()], op+":reward-credit")
	m.effects = append(m.effects, pxEffect{Seen: m.seen[w.Hex()], Method: op, Effect: "reward-credit", Account: w, Caller: m.curCaller, Deleg: d})
	m.pending[k] = new(big.Int)
}

func moduleAddr(name string) []byte { return authtypes.NewModuleAddress(name).Bytes() }

func runC02(st *ev.Stats, p PxProgram) string {
	st.Eval()
	fail := func(key, what string) string { return st.Discrepancy(key, what, p) }
	n := pxBase().Fork()
	n.BeginBlock(chain.BlockIn{})
	app := n.App
	prog, ctxOf := pxPrepare(n, p)
	_ = prog
	vals := pxVals(n)

	// ---- reference model initial state ----
	m := &pxModel{bal: map[string]*big.Int{}, pending: map[string]*big.Int{}, hasDel: map[string]bool{}, withdraw: map[string]common.Address{}, touched: map[string][]string{}, flows: map[string]bool{}, seen: map[string]bool{}, exists: map[string]bool{}}
	accounts := pxAllAccounts()
	names := map[string]string{}
	for name, a := range accounts {
		h := common.BytesToAddress(a.Bytes())
		m.bal[h.Hex()] = n.Balance(a)
		names[h.Hex()] = name
		m.exists[h.Hex()] = app.AccountKeeper.GetAccount(n.Ctx(), a) != nil
	}
	q := distrkeeper.NewQuerier(app.DistrKeeper)
	for _, a := range accounts {
		h := common.BytesToAddress(a.Bytes())
		w := app.DistrKeeper.GetDelegatorWithdrawAddr(n.Ctx(), a)
		m.withdraw[h.Hex()] = common.BytesToAddress(w.Bytes())
		for _, d := range app.StakingKeeper.GetDelegatorDelegations(n.Ctx(), a, 100) {
			m.hasDel[h.Hex()+"|"+d.ValidatorAddress] = true
			cctx, _ := n.Ctx().CacheContext()
			res, err := q.DelegationRewards(sdk.WrapSDKContext(cctx), &distrtypes.QueryDelegationRewardsRequest{DelegatorAddress: a.String(), ValidatorAddress: d.ValidatorAddress})
			if err == nil {
				m.pending[h.Hex()+"|"+d.ValidatorAddress] = res.Rewards.AmountOf(chain.Denom).TruncateInt().BigInt()
			}
		}
	}
	supply0 := n.Supply()
	allBefore := map[string]*big.Int{}
	app.BankKeeper.IterateAllBalances(n.Ctx(), func(a sdk.AccAddress, c sdk.Coin) bool {
		if c.Denom == chain.Denom {
			allBefore[common.BytesToAddress(a.Bytes()).Hex()] = c.Amount.BigInt()
		}
		return false
	})

	// ---- execute ----
	bz, value := pxTxBytes(n, p)
	res := n.DeliverTx(bz)
	vmErr, _ := decodeEthResponse(res.Data)
	if res.Code != 0 {
		// not executed at all (ante) or failed as a whole: nothing but fee and nonce may change. Supply must still be intact.
		if n.Supply().Cmp(supply0) != 0 {
			return fail("supply-changed:failed-tx", fmt.Sprintf("tx failed (code %d %s) but supply %s -> %s", res.Code, trunc(res.Log), supply0, n.Supply()))
		}
		st.Class("tx-failed:" + fmt.Sprint(res.Code))
		return ""
	}
	flag := func(i, j int) int {
		v := int(n.Storage(ctxOf[i], evmasm.ResultSlot(i, j)).Big().Int64()) - 1
		if os.Getenv("VERIF_DEBUG") != "" {
			fmt.Printf("DEBUG flag frame %d op %d ctx %s = %d\n", i, j, ctxOf[i].Hex(), v)
		}
		return v
	}
	fee := new(big.Int).Mul(big.NewInt(res.GasUsed), gwei10)
	m.add(pxSigner.Hex, new(big.Int).Neg(fee))
	m.add(common.BytesToAddress(moduleAddr("fee_collector")), fee)

	// ---- replay the recorded outcomes on the model ----
	successPre, dirtyOverlap, failedPre := 0, false, false
	var applyPre func(pre *PxPre, self common.Address, tag string)
	applyPre = func(pre *PxPre, self common.Address, tag string) {
		d := pxAddrOf(pre.Who, self)
		val := vals[pre.Val%len(vals)].OperatorAddress
		val2 := vals[pre.Val2%len(vals)].OperatorAddress
		amt := milli(pre.Amt)
		bonded, notBonded := common.BytesToAddress(moduleAddr(stakingtypes.BondedPoolName)), common.BytesToAddress(moduleAddr(stakingtypes.NotBondedPoolName))
		op := pre.Pre + "." + pre.Method
		m.curCaller = self
		switch pre.Method {
		case "delegate":
			if m.hasDel[d.Hex()+"|"+val] {
				m.payout(d, val, op)
			}
			m.add(d, new(big.Int).Neg(amt))
			m.add(bonded, amt)
			m.hasDel[d.Hex()+"|"+val] = true
			m.touched[d.Hex()] = append(m.touched[d.Hex()], op+":debit")
			m.effects = append(m.effects, pxEffect{Seen: m.seen[d.Hex()], Method: op, Effect: "debit", Account: d, Caller: self, Deleg: d})
		case "createValidator":
			// the self-delegation of a new (unbonded) validator goes to the not-bonded pool
			m.add(d, new(big.Int).Neg(amt))
			m.add(notBonded, amt)
			m.touched[d.Hex()] = append(m.touched[d.Hex()], op+":debit")
			m.effects = append(m.effects, pxEffect{Seen: m.seen[d.Hex()], Method: op, Effect: "debit", Account: d, Caller: self, Deleg: d})
		case "approve":
			// no coins move
		case "undelegate":
			m.payout(d, val, op)
			m.add(bonded, new(big.Int).Neg(amt))
			m.add(notBonded, amt)
		case "redelegate":
			m.payout(d, val, op)
			if m.hasDel[d.Hex()+"|"+val2] {
				m.payout(d, val2, op)
			}
			m.hasDel[d.Hex()+"|"+val2] = true
		case "cancelUnbonding":
			if m.hasDel[d.Hex()+"|"+val] {
				m.payout(d, val, op)
			}
			m.add(notBonded, new(big.Int).Neg(amt))
			m.add(bonded, amt)
			m.hasDel[d.Hex()+"|"+val] = true
		case "withdraw":
			m.payout(d, val, op)
		case "claim":
			var vs []string
			for k := range m.hasDel {
				if len(k) > 43 && k[:42] == d.Hex() {
					vs = append(vs, k[43:])
				}
			}
			sort.Strings(vs)
			for _, v := range vs {
				m.payout(d, v, op)
			}
		case "setWithdraw":
			m.withdraw[d.Hex()] = pxAddrOf(pre.To, self)
		}
		successPre++
		_ = tag
	}
	if p.Direct != nil {
		if vmErr == "" {
			applyPre(p.Direct, pxSigner.Hex, "direct")
			st.Class("direct:" + p.Direct.Method)
		}
	} else if vmErr == "" {
		m.add(pxSigner.Hex, new(big.Int).Neg(value))
		m.add(evmasm.FrameAddr(0), value)
		m.seen[pxSigner.Hex.Hex()], m.seen[evmasm.FrameAddr(0).Hex()] = true, true
		if value.Sign() > 0 {
			m.flows[pxSigner.Hex.Hex()], m.flows[evmasm.FrameAddr(0).Hex()] = true, true
		}
		// the recorded outcomes are replayed in execution order: a successful call descends into the callee at that
		// point (every frame is called at most once), so that state set by a later op of the parent is not seen early
		var walk func(i int)
		walk = func(i int) {
			f := p.Frames[i]
			reached := false
			for j, op := range f.Ops {
				if op.Kind != "pre" && op.Kind != "call" && op.Kind != "send" {
					continue
				}
				fl := flag(i, j)
				if fl < 0 {
					continue
				}
				reached = true
				if fl == 0 {
					if op.Kind == "call" || (op.Kind == "send" && len(op.Target) > 5 && op.Target[:5] == "frame") {
						failedPre = true // a callee frame failed: whatever its precompile calls did / flushed is C05's matter
					}
					if op.Kind == "pre" && (op.Pre.Pre != "bank" && op.Pre.Method != "delegation" || bigOf(orZero(op.Value)).Sign() > 0) {
						failedPre = true
					}
					continue
				}
				v := bigOf(orZero(op.Value))
				switch op.Kind {
				case "send":
					m.add(ctxOf[i], new(big.Int).Neg(v))
					m.add(pxAddrOf(op.Target, ctxOf[i]), v)
					m.seen[ctxOf[i].Hex()] = true
					if tg := pxAddrOf(op.Target, ctxOf[i]).Hex(); m.exists[tg] || v.Sign() > 0 {
						m.seen[tg], m.exists[tg] = true, true
					}
					if v.Sign() > 0 {
						m.flows[ctxOf[i].Hex()], m.flows[pxAddrOf(op.Target, ctxOf[i]).Hex()] = true, true
					}
				case "call":
					if op.CallOp == "CALL" || op.CallOp == "" {
						m.add(ctxOf[i], new(big.Int).Neg(v))
						m.add(evmasm.FrameAddr(op.Child), v)
						m.seen[ctxOf[i].Hex()], m.seen[evmasm.FrameAddr(op.Child).Hex()] = true, true
						if v.Sign() > 0 {
							m.flows[ctxOf[i].Hex()], m.flows[evmasm.FrameAddr(op.Child).Hex()] = true, true
						}
					}
					walk(op.Child)
				case "pre":
					if op.CallOp == "CALL" || op.CallOp == "" {
						addr, _ := pxCalldata(n, op.Pre, ctxOf[i])
						m.add(ctxOf[i], new(big.Int).Neg(v))
						m.add(addr, v)
						if v.Sign() > 0 {
							m.flows[ctxOf[i].Hex()] = true
							m.residue = true
						}
					}
					if op.Pre.Pre != "bank" && op.Pre.Method != "delegation" {
						applyPre(op.Pre, ctxOf[i], fmt.Sprintf("f%d.%d", i, j))
						st.Class("pre-ok:" + op.Pre.Pre + "." + op.Pre.Method + ":who=" + op.Pre.Who)
					}
				}
			}
			_ = reached
		}
		walk(0)
	}

	// ---- compare ----
	supply1 := n.Supply()
	type mismatch struct {
		name string
		got  *big.Int
		want *big.Int
		ops  []string
	}
	var mism []mismatch
	var keysSorted []string
	for k := range m.bal {
		keysSorted = append(keysSorted, k)
	}
	sort.Strings(keysSorted)
	for _, k := range keysSorted {
		a := common.HexToAddress(k)
		got := n.Balance(sdk.AccAddress(a.Bytes()))
		if got.Cmp(m.bal[k]) != 0 {
			nm := names[k]
			if nm == "" {
				nm = k
			}
			mism = append(mism, mismatch{nm, got, m.bal[k], m.touched[k]})
		}
		if len(m.touched[k]) > 0 {
			dirtyOverlap = true
		}
	}
	// accounts outside the ledger must not move at all
	allAfter := map[string]*big.Int{}
	app.BankKeeper.IterateAllBalances(n.Ctx(), func(a sdk.AccAddress, c sdk.Coin) bool {
		if c.Denom == chain.Denom {
			allAfter[common.BytesToAddress(a.Bytes()).Hex()] = c.Amount.BigInt()
		}
		return false
	})
	for k, v := range allAfter {
		if _, tracked := m.bal[k]; !tracked && (allBefore[k] == nil || allBefore[k].Cmp(v) != 0) {
			mism = append(mism, mismatch{"untracked:" + k, v, bi(allBefore, k), nil})
		}
	}
	for k, v := range allBefore {
		if _, tracked := m.bal[k]; !tracked && allAfter[k] == nil && v.Sign() != 0 {
			mism = append(mism, mismatch{"untracked:" + k, new(big.Int), v, nil})
		}
	}
	roleOf := func(name string) string {
		switch {
		case name == "signer", name == "third", name == "w":
			return name
		case len(name) > 5 && name[:5] == "frame":
			return "contract"
		}
		return name
	}
	if supply1.Cmp(supply0) != 0 || len(mism) > 0 {
		desc := fmt.Sprintf("supply %s -> %s (delta %s); vm error %q; mismatches:", supply0, supply1, new(big.Int).Sub(supply1, supply0), vmErr)
		for _, x := range mism {
			desc += fmt.Sprintf(" %s has %s, ledger says %s (diff %s);", x.name, x.got, x.want, new(big.Int).Sub(x.got, x.want))
		}
		// Which listed mechanism can explain a discrepancy in THIS case? The mechanisms are identified by input class:
		//  A  stale-overwrite:<method>:<effect>  a successful precompile call moved coins of an account on the Cosmos side
		//     without mirroring it into the StateDB, and the EVM itself also wrote that account's balance in this tx
		//     (mirrors exist only for: staking.delegate debit and distribution.withdraw reward, both only when the
		//     account is the immediate caller);
		//  B  mirror-miscredit:distribution.withdraw  the reward mirror credits the immediate caller although the reward
		//     was paid to a different withdraw address;
		//  C  value-to-precompile-residue  a state-changing precompile call carried value.
		keys := map[string]bool{}
		for _, e := range m.effects {
			// both mirrors act on the immediate caller and only when the caller is the delegator
			mirrored := e.Account == e.Caller && e.Caller == e.Deleg && ((e.Method == "staking.delegate" && e.Effect == "debit") || (e.Method == "distribution.withdraw" && e.Effect == "reward-credit"))
			// (an account the EVM first looks at after the Cosmos-side move is loaded with the moved balance: nothing stale)
			if !mirrored && ((m.flows[e.Account.Hex()] && e.Seen) || e.Account == e.Caller) {
				// (the immediate caller's balance object is always loaded, and written back when anything marks it dirty)
				keys["stale-overwrite:"+e.Method+":"+e.Effect] = true
			}
			if e.Method == "distribution.withdraw" && e.Effect == "reward-credit" && e.Caller == e.Deleg && e.Account != e.Caller {
				keys["mirror-miscredit:distribution.withdraw"] = true
			}
		}
		if m.residue {
			keys["value-to-precompile-residue"] = true
		}
		if failedPre {
			//  D  a precompile call that returned failure to its caller (the EVM rolls the frame back) had already flushed
			//     the StateDB and/or written Cosmos state; that is C05's listed finding and is not blamed on C02 again
			keys["failed-precompile-call-leaves-effects"] = true
		}
		if len(keys) == 0 {
			k := "supply-changed"
			if len(mism) > 0 {
				k = "balance-mismatch:victim=" + roleOf(mism[0].name)
			}
			if successPre == 0 {
				k += ":no-precompile-effect"
			}
			return fail(k, desc)
		}
		var ks []string
		for k := range keys {
			ks = append(ks, k)
		}
		sort.Strings(ks)
		anyKnown := false
		for _, k := range ks {
			if st.IsKnown(k) {
				anyKnown = true
			}
		}
		for _, k := range ks {
			if anyKnown && !st.IsKnown(k) {
				continue // the case is explained by a listed mechanism; unlisted candidates are not blamed
			}
			if msg := fail(k, desc); msg != "" {
				return msg
			}
			st.Class("known:" + k)
		}
		return ""
	}
	// (3) invariants after the block
	n.EndBlockCommit()
	if route, msg, broken := checkInvariants(n); broken {
		if failedPre {
			if m := fail("failed-precompile-call-leaves-effects", "invariant "+route+" broken after a tx with a failed precompile call / callee frame: "+trunc(msg)); m != "" {
				return m
			}
			return ""
		}
		return fail("invariant:"+route, trunc(msg))
	}
	if successPre > 0 {
		st.Class("some-precompile-tx-succeeded")
		if dirtyOverlap {
			sig := map[string]any{"direct": p.Direct != nil, "value": p.Value != "0", "setw": p.SetW}
			var ms []string
			for _, f := range p.Frames {
				for _, op := range f.Ops {
					if op.Pre != nil {
						ms = append(ms, op.Pre.Method+"/"+op.Pre.Who+"/"+op.CallOp)
					}
				}
			}
			sig["pre"] = ms
			st.NonTrivial(sig)
		}
	}
	return ""
}

func orZero(s string) string {
	if s == "" {
		return "0"
	}
	return s
}

var _ = pabi.StakingAddr

func init() {
	replayers["TestC02_Supply"] = func(st *ev.Stats, raw json.RawMessage) string {
		var p PxProgram
		must(json.Unmarshal(raw, &p))
		return runC02(st, p)
	}
}

func TestC02_Supply(t *testing.T) {
	st := ev.New("C02", "TestC02_Supply", "one Ethereum tx on a forked chain with delegations, accrued rewards, unbondings, grants: generated call tree (1-3 frames, CALL/DELEGATECALL/CALLCODE between frames) calling staking/distribution/bank precompiles with delegator in {signer, calling contract, third party}, value attached and forwarded before/after the precompile calls; non-trivial = >= 1 successful state-changing precompile call whose Cosmos-side debit/credit hits an account in the ledger; distinct by (methods, delegator roles, call kinds, value, withdraw-address setting)")
	runCorpus(t, st)
	runRapid(t, st, 600, 40000, func(rt *rapid.T) {
		p := genPxProgram(rt, pxGenOpts{Reverts: false, CallKinds: []string{"DELEGATECALL", "CALLCODE"}, PreMethods: append(append([]string{}, pxTxMethods...), pxQueryMethods...), MaxFrames: 3})
		// no gas caps in this domain: an out-of-gas child would be a reverting frame
		for i := range p.Frames {
			for j := range p.Frames[i].Ops {
				p.Frames[i].Ops[j].GasCap = 0
				if p.Frames[i].Ops[j].Kind == "pre" {
					p.Frames[i].Ops[j].CallOp = "CALL" // precompiles through plain CALL here; other kinds are C04's domain
				}
			}
		}
		if msg := runC02(st, p); msg != "" {
			rt.Fatalf("%s", msg)
		}
	})
}
