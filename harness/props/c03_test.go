package props

// C03 — only the key holder can authorise a transaction, once.
//
// Case = a valid transaction T of one kind with generated field values. On a fork of a prepared chain the case
// delivers (CheckTx + DeliverTx): every single-field mutation of T that keeps the original signature, T signed for
// other chain ids / account numbers, impersonation attempts; then T itself (positive control: must be accepted);
// then T again (replay: must be rejected).
// Oracle: model of the victim = (sequence, balance). Only the unmodified T may change it, and only once.

import (
	"encoding/json"
	"fmt"
	sdktx "github.com/cosmos/cosmos-sdk/types/tx"
	sdkvesting "github.com/cosmos/cosmos-sdk/x/auth/vesting/types"
	vestingtypes "github.com/haqq-network/haqq/x/vesting/types"
	"math/big"
	"sort"
	"testing"
	"time"

	sdkmath "cosmossdk.io/math"
	abci "github.com/cometbft/cometbft/abci/types"
	"github.com/cosmos/cosmos-sdk/client"
	codectypes "github.com/cosmos/cosmos-sdk/codec/types"
	sdk "github.com/cosmos/cosmos-sdk/types"
	"github.com/cosmos/cosmos-sdk/types/tx/signing"
	banktypes "github.com/cosmos/cosmos-sdk/x/bank/types"
	"github.com/ethereum/go-ethereum/common"
	ethtypes "github.com/ethereum/go-ethereum/core/types"
	"pgregory.net/rapid"

	"verif/chain"
	"verif/ev"
	"verif/txb"

	haqqtypes "github.com/haqq-network/haqq/types"
	evmtypes "github.com/haqq-network/haqq/x/evm/types"
)

type C03Case struct {
	Kind     string `json:"kind"` // eth-legacy | eth-access | eth-dynamic | cosmos-direct | cosmos-amino | eip712-pubkey | eip712-web3
	Amount   string `json:"amount"`
	Gas      uint64 `json:"gas"`
	PriceMul int64  `json:"price_mul"` // gas price = 1 gwei * PriceMul (base fee is <= 1 gwei)
	TipDiv   int64  `json:"tip_div"`   // dynamic fee: tip = price / TipDiv
	Memo     string `json:"memo"`
	NMsgs    int    `json:"n_msgs"`
	DataLen  int    `json:"data_len"`
	NAccess  int    `json:"n_access"`
	Timeout  uint64 `json:"timeout"`
	PreTxs   int    `json:"pre_txs"` // valid txs of the victim executed before (so its sequence is not 0)
}

var c03Kinds = []string{"eth-legacy", "eth-access", "eth-dynamic", "cosmos-direct", "cosmos-amino", "eip712-pubkey", "eip712-web3", "eip712-direct"}

func genC03(t *rapid.T) C03Case {
	c := C03Case{}
	c.Kind = rapid.SampledFrom(c03Kinds).Draw(t, "kind")
	c.Amount = rapid.SampledFrom([]string{"0", "1", "1000", "1000000000000000000", "123456789123456789"}).Draw(t, "amount")
	c.Gas = rapid.SampledFrom([]uint64{300000, 350000, 400000, 500000}).Draw(t, "gas")
	c.PriceMul = rapid.Int64Range(2, 50).Draw(t, "pricemul")
	c.TipDiv = rapid.Int64Range(1, 10).Draw(t, "tipdiv")
	c.Memo = rapid.SampledFrom([]string{"", "", "hello", "memo with spaces"}).Draw(t, "memo")
	c.NMsgs = rapid.IntRange(1, 3).Draw(t, "nmsgs")
	c.DataLen = rapid.SampledFrom([]int{0, 0, 1, 4, 36}).Draw(t, "datalen")
	c.NAccess = rapid.IntRange(0, 2).Draw(t, "naccess")
	c.Timeout = rapid.SampledFrom([]uint64{0, 0, 1000}).Draw(t, "timeout")
	c.PreTxs = rapid.IntRange(0, 2).Draw(t, "pretxs")
	if c.Kind == "eip712-web3" || (c.Kind == "eip712-direct" && rapid.IntRange(0, 3).Draw(t, "direct-timeout") > 0) {
		c.Timeout = 0 // the legacy typed-data schema has no timeout_height field; typed data from a protobuf sign document refuses one
	}
	return c
}

func c03Base() *chain.Node {
	return baseChain("c03", func() *chain.Node {
		accs := append(chain.Accts("c03v", 1), chain.Accts("c03x", 3)...)
		n := chain.NewNode(chain.Opts{Accounts: accs, NumVals: 1})
		n.BeginBlock(chain.BlockIn{})
		n.EndBlockCommit()
		n.BeginBlock(chain.BlockIn{})
		return n
	})
}

type c03Obs struct {
	Seq     uint64
	Bal     *big.Int
	RecvBal *big.Int
}

func (o c03Obs) eq(p c03Obs) bool {
	return o.Seq == p.Seq && o.Bal.Cmp(p.Bal) == 0 && o.RecvBal.Cmp(p.RecvBal) == 0
}

func (o c03Obs) String() string {
	return fmt.Sprintf("{seq %d bal %s recipient %s}", o.Seq, o.Bal, o.RecvBal)
}

type c03Tx struct {
	Name string
	Bz   []byte
	Err  string // build error (e.g. encoder refuses): counts as rejected
}

func runC03(st *ev.Stats, c C03Case) string {
	st.Eval()
	fail := func(key, what string) string { return st.Discrepancy(key, what, c) }
	n := c03Base().Fork()
	n.BeginBlock(chain.BlockIn{})
	victim, attacker, recv, other := chain.Acct("c03v0"), chain.Acct("c03x0"), chain.Acct("c03x1"), chain.Acct("c03x2")
	evmChainID := big.NewInt(11235)
	price := new(big.Int).Mul(big.NewInt(1_000_000_000), big.NewInt(c.PriceMul))
	amount := bigOf(c.Amount)

	obs := func() c03Obs {
		ctx := n.Ctx()
		_, seq := txb.AccInfo(ctx, n.App, victim.Addr)
		return c03Obs{Seq: seq, Bal: n.App.BankKeeper.GetBalance(ctx, victim.Addr, chain.Denom).Amount.BigInt(),
			RecvBal: n.App.BankKeeper.GetBalance(ctx, recv.Addr, chain.Denom).Amount.BigInt()}
	}
	send := func(from chain.Account, to sdk.AccAddress, amt *big.Int) sdk.Msg {
		return banktypes.NewMsgSend(from.Addr, to, sdk.NewCoins(sdk.NewCoin(chain.Denom, sdkmath.NewIntFromBigInt(amt))))
	}
	// pre-transactions so the victim's sequence is not trivially zero and its pubkey is on the account
	for i := 0; i < c.PreTxs; i++ {
		num, seq := txb.AccInfo(n.Ctx(), n.App, victim.Addr)
		bz := txb.CosmosTx(victim, txb.Cosmos{Msgs: []sdk.Msg{send(victim, other.Addr, big.NewInt(7))}, Gas: defaultGas, Fee: coinsOfGas(defaultGas, gwei10), ChainID: chain.ChainID, AccNum: num, Seq: seq})
		if r := n.DeliverTx(bz); r.Code != 0 {
			panic("pre tx failed: " + r.Log)
		}
	}
	accNum, seq := txb.AccInfo(n.Ctx(), n.App, victim.Addr)
	attNum, attSeq := txb.AccInfo(n.Ctx(), n.App, attacker.Addr)
	_ = attNum

	var base c03Tx
	var muts []c03Tx
	add := func(name string, f func() ([]byte, error)) {
		var bz []byte
		var err error
		func() {
			defer func() {
				if r := recover(); r != nil {
					err = fmt.Errorf("panic while building: %v", r)
				}
			}()
			bz, err = f()
		}()
		m := c03Tx{Name: name, Bz: bz}
		if err != nil {
			m.Err = err.Error()
		}
		muts = append(muts, m)
	}

	isEth := c.Kind[:3] == "eth"
	if isEth {
		typ := map[string]int{"eth-legacy": 0, "eth-access": 1, "eth-dynamic": 2}[c.Kind]
		to := recv.Hex
		data := make([]byte, c.DataLen)
		for i := range data {
			data[i] = byte(i + 1)
		}
		var al ethtypes.AccessList
		for i := 0; i < c.NAccess && typ > 0; i++ {
			al = append(al, ethtypes.AccessTuple{Address: common.BytesToAddress([]byte{byte(i + 1)}), StorageKeys: []common.Hash{common.BytesToHash([]byte{byte(i + 9)})}})
		}
		e := txb.Eth{Type: typ, ChainID: evmChainID, Nonce: seq, To: &to, Value: amount, Gas: c.Gas, GasPrice: price, FeeCap: price,
			TipCap: new(big.Int).Quo(price, big.NewInt(c.TipDiv)), Data: data, Access: al}
		signed := txb.SignEth(victim, e)
		bz, err := txb.WrapEth(signed)
		must(err)
		base = c03Tx{Name: "original", Bz: bz}
		v, r, s := signed.RawSignatureValues()
		// rebuild with the original signature and one changed field
		rebuild := func(f func(e *txb.Eth), sig func(v, r, s *big.Int) (*big.Int, *big.Int, *big.Int), newType int) ([]byte, error) {
			m := e
			m.Type = newType
			if f != nil {
				f(&m)
			}
			vv, rr, ss := new(big.Int).Set(v), new(big.Int).Set(r), new(big.Int).Set(s)
			if sig != nil {
				vv, rr, ss = sig(vv, rr, ss)
			}
			val := m.Value
			var inner ethtypes.TxData
			switch m.Type {
			case 0:
				inner = &ethtypes.LegacyTx{Nonce: m.Nonce, GasPrice: m.GasPrice, Gas: m.Gas, To: m.To, Value: val, Data: m.Data, V: vv, R: rr, S: ss}
			case 1:
				inner = &ethtypes.AccessListTx{ChainID: m.ChainID, Nonce: m.Nonce, GasPrice: m.GasPrice, Gas: m.Gas, To: m.To, Value: val, Data: m.Data, AccessList: m.Access, V: vv, R: rr, S: ss}
			default:
				inner = &ethtypes.DynamicFeeTx{ChainID: m.ChainID, Nonce: m.Nonce, GasTipCap: m.TipCap, GasFeeCap: m.FeeCap, Gas: m.Gas, To: m.To, Value: val, Data: m.Data, AccessList: m.Access, V: vv, R: rr, S: ss}
			}
			return txb.WrapEth(ethtypes.NewTx(inner))
		}
		plus1 := func(x *big.Int) *big.Int { return new(big.Int).Add(x, big.NewInt(1)) }
		add("nonce+1", func() ([]byte, error) { return rebuild(func(m *txb.Eth) { m.Nonce++ }, nil, typ) })
		add("gas+1", func() ([]byte, error) { return rebuild(func(m *txb.Eth) { m.Gas++ }, nil, typ) })
		add("value+1", func() ([]byte, error) { return rebuild(func(m *txb.Eth) { m.Value = plus1(m.Value) }, nil, typ) })
		add("to", func() ([]byte, error) { return rebuild(func(m *txb.Eth) { a := attacker.Hex; m.To = &a }, nil, typ) })
		add("to->create", func() ([]byte, error) { return rebuild(func(m *txb.Eth) { m.To = nil }, nil, typ) })
		add("data", func() ([]byte, error) {
			return rebuild(func(m *txb.Eth) { m.Data = append(append([]byte{}, m.Data...), 0x01) }, nil, typ)
		})
		if typ < 2 {
			add("gasPrice+1", func() ([]byte, error) { return rebuild(func(m *txb.Eth) { m.GasPrice = plus1(m.GasPrice) }, nil, typ) })
			add("gasPrice-1", func() ([]byte, error) {
				return rebuild(func(m *txb.Eth) { m.GasPrice = new(big.Int).Sub(m.GasPrice, big.NewInt(1)) }, nil, typ)
			})
		} else {
			add("feeCap+1", func() ([]byte, error) { return rebuild(func(m *txb.Eth) { m.FeeCap = plus1(m.FeeCap) }, nil, typ) })
			add("tip-1", func() ([]byte, error) {
				return rebuild(func(m *txb.Eth) { m.TipCap = new(big.Int).Sub(m.TipCap, big.NewInt(1)) }, nil, typ)
			})
		}
		if typ > 0 {
			add("accessList+entry", func() ([]byte, error) {
				return rebuild(func(m *txb.Eth) {
					m.Access = append(append(ethtypes.AccessList{}, m.Access...), ethtypes.AccessTuple{Address: attacker.Hex, StorageKeys: []common.Hash{{}}})
				}, nil, typ)
			})
			if len(al) > 0 {
				add("accessList-key", func() ([]byte, error) {
					return rebuild(func(m *txb.Eth) {
						c := append(ethtypes.AccessList{}, m.Access...)
						c[0] = ethtypes.AccessTuple{Address: c[0].Address, StorageKeys: []common.Hash{common.BytesToHash([]byte{0xff})}}
						m.Access = c
					}, nil, typ)
				})
			}
			add("chainId-field", func() ([]byte, error) { return rebuild(func(m *txb.Eth) { m.ChainID = big.NewInt(11236) }, nil, typ) })
			add("type-swap", func() ([]byte, error) { return rebuild(nil, nil, 3-typ) })
		}
		add("sig-r+1", func() ([]byte, error) {
			return rebuild(nil, func(v, r, s *big.Int) (*big.Int, *big.Int, *big.Int) { return v, plus1(r), s }, typ)
		})
		add("sig-s+1", func() ([]byte, error) {
			return rebuild(nil, func(v, r, s *big.Int) (*big.Int, *big.Int, *big.Int) { return v, r, plus1(s) }, typ)
		})
		add("sig-v-flip", func() ([]byte, error) {
			return rebuild(nil, func(v, r, s *big.Int) (*big.Int, *big.Int, *big.Int) {
				if typ == 0 { // EIP-155: v = 35 + 2*chain + {0,1}
					if new(big.Int).Sub(v, big.NewInt(35)).Bit(0) == 0 {
						return plus1(v), r, s
					}
					return new(big.Int).Sub(v, big.NewInt(1)), r, s
				}
				return new(big.Int).Xor(v, big.NewInt(1)), r, s
			}, typ)
		})
		// signed for another chain
		for _, cid := range []int64{11236, 54211, 1} {
			cid := cid
			add(fmt.Sprintf("foreign-chain-%d", cid), func() ([]byte, error) {
				m := e
				m.ChainID = big.NewInt(cid)
				return txb.WrapEth(txb.SignEth(victim, m))
			})
		}
		// validly signed by the victim, but for a sequence number that is not the current one
		add("resigned-nonce+1", func() ([]byte, error) { m := e; m.Nonce = seq + 1; return txb.WrapEth(txb.SignEth(victim, m)) })
		add("resigned-nonce+7", func() ([]byte, error) { m := e; m.Nonce = seq + 7; return txb.WrapEth(txb.SignEth(victim, m)) })
		if seq > 0 {
			add("resigned-nonce-1", func() ([]byte, error) { m := e; m.Nonce = seq - 1; return txb.WrapEth(txb.SignEth(victim, m)) })
		}
		if typ == 0 {
			add("unprotected", func() ([]byte, error) { m := e; m.Unprot = true; return txb.WrapEth(txb.SignEth(victim, m)) })
		}
		// impersonation: attacker signs, envelope claims the victim
		add("from-field-victim", func() ([]byte, error) {
			m := e
			m.Nonce = attSeq
			a := attacker.Hex
			m.To = &a
			return wrapEthFrom(txb.SignEth(attacker, m), victim.Hex.Hex(), nil)
		})
		add("envelope-fee-payer-victim", func() ([]byte, error) {
			m := e
			m.Nonce = attSeq
			return wrapEthFrom(txb.SignEth(attacker, m), "", victim.Addr)
		})
	} else {
		var msgs []sdk.Msg
		for i := 0; i < c.NMsgs; i++ {
			msgs = append(msgs, send(victim, recv.Addr, new(big.Int).Add(amount, big.NewInt(int64(i+1)))))
		}
		fee := coinsOfGas(c.Gas, price)
		cb := txb.Cosmos{Msgs: msgs, Gas: c.Gas, Fee: fee, Memo: c.Memo, TimeoutHeight: c.Timeout, ChainID: chain.ChainID, AccNum: accNum, Seq: seq}
		if c.Kind == "cosmos-amino" || c.Kind == "eip712-pubkey" || c.Kind == "eip712-web3" {
			cb.Mode = signing.SignMode_SIGN_MODE_LEGACY_AMINO_JSON
		}
		// sign returns the builder carrying the signature of the (possibly altered) signing context
		sign := func(x txb.Cosmos, typedChain uint64) (client.TxBuilder, error) {
			switch c.Kind {
			case "cosmos-direct", "cosmos-amino":
				return txb.SignCosmos(victim, x), nil
			case "eip712-pubkey":
				return txb.EIP712(victim, x, typedChain, false)
			case "eip712-direct":
				return txb.EIP712Direct(victim, x)
			default:
				return txb.EIP712(victim, x, typedChain, true)
			}
		}
		b0, err := sign(cb, 11235)
		if err != nil {
			// the signing scheme cannot express this transaction (e.g. legacy typed data has no timeout field)
			st.Class("unsignable:" + c.Kind)
			return ""
		}
		base = c03Tx{Name: "original", Bz: txb.Encode(b0)}
		sigs0, err := b0.GetTx().GetSignaturesV2()
		must(err)
		var ext0 []*codectypes.Any
		if c.Kind == "eip712-web3" {
			ext0 = b0.GetTx().(interface{ GetExtensionOptions() []*codectypes.Any }).GetExtensionOptions()
		}
		// keep the original signature (and web3 extension), change one field
		mutate := func(f func(x *txb.Cosmos), fs func(s *signing.SignatureV2)) ([]byte, error) {
			x := cb
			x.Msgs = append([]sdk.Msg{}, cb.Msgs...)
			x.ExtOpts = append([]*codectypes.Any{}, ext0...)
			if f != nil {
				f(&x)
			}
			b := x.Builder()
			s := sigs0[0]
			if fs != nil {
				fs(&s)
			}
			if err := b.SetSignatures(s); err != nil {
				return nil, err
			}
			return txb.TxConfig().TxEncoder()(b.GetTx())
		}
		add("msg-amount+1", func() ([]byte, error) {
			return mutate(func(x *txb.Cosmos) {
				x.Msgs[len(x.Msgs)-1] = send(victim, recv.Addr, new(big.Int).Add(amount, big.NewInt(1000)))
			}, nil)
		})
		add("msg-recipient", func() ([]byte, error) {
			return mutate(func(x *txb.Cosmos) {
				x.Msgs[len(x.Msgs)-1] = send(victim, attacker.Addr, new(big.Int).Add(amount, big.NewInt(int64(len(x.Msgs)))))
			}, nil)
		})
		add("msg-added", func() ([]byte, error) {
			return mutate(func(x *txb.Cosmos) { x.Msgs = append(x.Msgs, send(victim, attacker.Addr, big.NewInt(5))) }, nil)
		})
		if c.NMsgs > 1 {
			add("msg-dropped", func() ([]byte, error) { return mutate(func(x *txb.Cosmos) { x.Msgs = x.Msgs[:len(x.Msgs)-1] }, nil) })
			add("msg-swapped", func() ([]byte, error) {
				return mutate(func(x *txb.Cosmos) { x.Msgs[0], x.Msgs[1] = x.Msgs[1], x.Msgs[0] }, nil)
			})
		}
		add("memo", func() ([]byte, error) { return mutate(func(x *txb.Cosmos) { x.Memo += "x" }, nil) })
		add("timeout", func() ([]byte, error) { return mutate(func(x *txb.Cosmos) { x.TimeoutHeight += 500 }, nil) })
		add("fee-1", func() ([]byte, error) {
			return mutate(func(x *txb.Cosmos) { x.Fee = sdk.NewCoins(sdk.NewCoin(chain.Denom, x.Fee[0].Amount.SubRaw(1))) }, nil)
		})
		add("fee+1", func() ([]byte, error) {
			return mutate(func(x *txb.Cosmos) { x.Fee = sdk.NewCoins(sdk.NewCoin(chain.Denom, x.Fee[0].Amount.AddRaw(1))) }, nil)
		})
		add("gas+1", func() ([]byte, error) { return mutate(func(x *txb.Cosmos) { x.Gas++ }, nil) })
		add("gas-1", func() ([]byte, error) { return mutate(func(x *txb.Cosmos) { x.Gas-- }, nil) })
		add("fee-granter", func() ([]byte, error) { return mutate(func(x *txb.Cosmos) { x.FeeGranter = other.Addr }, nil) })
		add("fee-payer", func() ([]byte, error) { return mutate(func(x *txb.Cosmos) { x.FeePayer = other.Addr }, nil) })
		add("fee-payer-with-padded-signature", func() ([]byte, error) {
			// somebody else is named as fee payer (which makes it a required signer) and the signature list is padded
			// with a signature that is not that account's: the count check passes, nobody signed for the payer
			x := cb
			x.Msgs = append([]sdk.Msg{}, cb.Msgs...)
			x.ExtOpts = append([]*codectypes.Any{}, ext0...)
			x.FeePayer = other.Addr
			b := x.Builder()
			_, otherSeq := txb.AccInfo(n.Ctx(), n.App, other.Addr)
			junk := signing.SignatureV2{PubKey: other.Priv.PubKey(), Sequence: otherSeq,
				Data: &signing.SingleSignatureData{SignMode: sigs0[0].Data.(*signing.SingleSignatureData).SignMode, Signature: append([]byte{}, sigs0[0].Data.(*signing.SingleSignatureData).Signature...)}}
			if err := b.SetSignatures(sigs0[0], junk); err != nil {
				return nil, err
			}
			return txb.TxConfig().TxEncoder()(b.GetTx())
		})
		add("fee-payer-with-padded-raw-signature", func() ([]byte, error) {
			// the same, but only the raw signature list is padded: one signer info, two raw signatures (the stateless
			// count check compares the raw list with the required signers)
			bz, err := mutate(func(x *txb.Cosmos) { x.FeePayer = other.Addr }, nil)
			if err != nil {
				return nil, err
			}
			var raw sdktx.TxRaw
			if err := raw.Unmarshal(bz); err != nil {
				return nil, err
			}
			raw.Signatures = append(raw.Signatures, []byte{1, 2, 3})
			return raw.Marshal()
		})
		add("sig-sequence+1", func() ([]byte, error) { return mutate(nil, func(s *signing.SignatureV2) { s.Sequence++ }) })
		add("sig-pubkey", func() ([]byte, error) {
			return mutate(nil, func(s *signing.SignatureV2) { s.PubKey = attacker.Priv.PubKey() })
		})
		add("sig-mode", func() ([]byte, error) {
			return mutate(nil, func(s *signing.SignatureV2) {
				d := *(s.Data.(*signing.SingleSignatureData))
				if d.SignMode == signing.SignMode_SIGN_MODE_DIRECT {
					d.SignMode = signing.SignMode_SIGN_MODE_LEGACY_AMINO_JSON
				} else {
					d.SignMode = signing.SignMode_SIGN_MODE_DIRECT
				}
				s.Data = &d
			})
		})
		if c.Kind != "eip712-web3" {
			add("sig-byte", func() ([]byte, error) {
				return mutate(nil, func(s *signing.SignatureV2) {
					d := *(s.Data.(*signing.SingleSignatureData))
					d.Signature = append([]byte{}, d.Signature...)
					d.Signature[5] ^= 0x01
					s.Data = &d
				})
			})
			add("ext-dynamic-fee-added", func() ([]byte, error) {
				return mutate(func(x *txb.Cosmos) {
					x.ExtOpts = append(x.ExtOpts, txb.MustAny(&haqqtypes.ExtensionOptionDynamicFeeTx{MaxPriorityPrice: sdkmath.NewInt(1)}))
				}, nil)
			})
		} else {
			web3 := func(f func(o *haqqtypes.ExtensionOptionsWeb3Tx)) ([]byte, error) {
				return mutate(func(x *txb.Cosmos) {
					o := *(ext0[0].GetCachedValue().(*haqqtypes.ExtensionOptionsWeb3Tx))
					o.FeePayerSig = append([]byte{}, o.FeePayerSig...)
					f(&o)
					x.ExtOpts = []*codectypes.Any{txb.MustAny(&o)}
				}, nil)
			}
			add("web3-sig-byte", func() ([]byte, error) {
				return web3(func(o *haqqtypes.ExtensionOptionsWeb3Tx) { o.FeePayerSig[7] ^= 0x01 })
			})
			add("web3-chain-id", func() ([]byte, error) {
				return web3(func(o *haqqtypes.ExtensionOptionsWeb3Tx) { o.TypedDataChainID = 54211 })
			})
			add("web3-fee-payer", func() ([]byte, error) {
				return web3(func(o *haqqtypes.ExtensionOptionsWeb3Tx) { o.FeePayer = attacker.Addr.String() })
			})
		}
		add("noncritical-ext-added", func() ([]byte, error) {
			return mutate(func(x *txb.Cosmos) {
				x.NonCritOpts = append(x.NonCritOpts, txb.MustAny(&haqqtypes.ExtensionOptionDynamicFeeTx{MaxPriorityPrice: sdkmath.NewInt(1)}))
			}, nil)
		})
		// signed in another signing context
		for _, cid := range []string{"haqq_11235-2", "haqq_54211-1", "haqq_11236-1"} {
			cid := cid
			add("foreign-chain-"+cid, func() ([]byte, error) {
				x := cb
				x.ChainID = cid
				pc, _ := haqqtypes.ParseChainID(cid)
				b, err := sign(x, pc.Uint64())
				if err != nil {
					return nil, err
				}
				return txb.TxConfig().TxEncoder()(b.GetTx())
			})
		}
		for _, d := range []int64{1, 7, -1} {
			d := d
			if d < 0 && seq == 0 {
				continue
			}
			add(fmt.Sprintf("resigned-seq%+d", d), func() ([]byte, error) {
				x := cb
				x.Seq = uint64(int64(seq) + d)
				b, err := sign(x, 11235)
				if err != nil {
					return nil, err
				}
				return txb.TxConfig().TxEncoder()(b.GetTx())
			})
		}
		add("foreign-account-number", func() ([]byte, error) {
			x := cb
			x.AccNum = accNum + 1
			b, err := sign(x, 11235)
			if err != nil {
				return nil, err
			}
			return txb.TxConfig().TxEncoder()(b.GetTx())
		})
		if c.Kind == "eip712-pubkey" || c.Kind == "eip712-web3" {
			add("typed-data-foreign-chain", func() ([]byte, error) {
				b, err := sign(cb, 54211)
				if err != nil {
					return nil, err
				}
				return txb.TxConfig().TxEncoder()(b.GetTx())
			})
		}
		// impersonation: message names the victim, signature and pubkey are the attacker's
		add("signed-by-attacker", func() ([]byte, error) {
			x := cb
			x.AccNum, x.Seq = attNum, attSeq
			b := x.Builder()
			sb := txb.SignCosmos(attacker, txb.Cosmos{Msgs: x.Msgs, Gas: x.Gas, Fee: x.Fee, Memo: x.Memo, TimeoutHeight: x.TimeoutHeight, ChainID: x.ChainID, AccNum: attNum, Seq: attSeq})
			// SignCosmos would fail GetSigners/pubkey consistency only in the ante handler; reuse its signature
			sg, err := sb.GetTx().GetSignaturesV2()
			if err != nil {
				return nil, err
			}
			if err := b.SetSignatures(sg...); err != nil {
				return nil, err
			}
			return txb.TxConfig().TxEncoder()(b.GetTx())
		})
	}

	// ---- run ----
	type eff struct {
		Seq [4]uint64
		Bal [4]string
	}
	effects := func(x *chain.Node) eff {
		var e eff
		ctx := x.Ctx()
		for i, a := range []chain.Account{victim, recv, attacker, other} {
			_, e.Seq[i] = txb.AccInfo(ctx, x.App, a.Addr)
			e.Bal[i] = x.App.BankKeeper.GetBalance(ctx, a.Addr, chain.Denom).Amount.String()
		}
		return e
	}
	before := obs()
	deliver := func(x *chain.Node, t c03Tx) (uint32, string) {
		if t.Err != "" || t.Bz == nil {
			return 1, "not encodable: " + t.Err
		}
		x.CheckTx(t.Bz) // exercised, no verdict: the mempool check executes nothing
		res := x.DeliverTx(t.Bz)
		return res.Code, res.Log
	}
	consumed := false // the signed content was already executed through an equivalent encoding
	// mutations that may turn out to be a re-encoding of the same signed content go last: once one of them executed
	// the content, the remaining ones are no longer comparable (the sequence moved) and are skipped
	late := map[string]bool{"sig-mode": true, "noncritical-ext-added": true, "sig-v-flip": true}
	sort.SliceStable(muts, func(i, j int) bool { return !late[muts[i].Name] && late[muts[j].Name] })
	for _, m := range muts {
		if consumed {
			st.Class("skipped-after-equivalent-encoding")
			break
		}
		code, log := deliver(n, m)
		after := obs()
		st.Class("mutation:" + c.Kind + ":" + m.Name)
		st.NonTrivial(map[string]string{"kind": c.Kind, "mutation": m.Name})
		if after.eq(before) && (code != 0 || isEth) {
			continue
		}
		if after.eq(before) && code == 0 && !isEth {
			return fail("mutated-accepted:"+c.Kind+":"+m.Name, fmt.Sprintf("mutation %q was accepted: %s", m.Name, trunc(log)))
		}
		// Something moved. That is only legitimate if the mutation touched nothing that is signed or executed (the
		// mutations listed in late: the declared sign mode of an EIP-712 signature, a non-critical extension option, the
		// recovery id's encoding), and then only if the effect equals the effect of the signed transaction itself
		// (differential against a second fork); it then counts as THE one execution of that content. A changed signed
		// field that is accepted is a violation even when the change happens to make no difference this time.
		if !late[m.Name] {
			return fail("mutated-accepted:"+c.Kind+":"+m.Name, fmt.Sprintf("mutation %q of a signed field was accepted and executed on behalf of the victim (code %d, %s): %s -> %s", m.Name, code, trunc(log), before, after))
		}
		if consumed {
			return fail("executed-twice:"+c.Kind+":"+m.Name, fmt.Sprintf("mutation %q executed the signed content a second time: %s -> %s", m.Name, before, after))
		}
		ref := c03Base().Fork()
		ref.BeginBlock(chain.BlockIn{})
		for i := 0; i < c.PreTxs; i++ {
			num, sq := txb.AccInfo(ref.Ctx(), ref.App, victim.Addr)
			bz := txb.CosmosTx(victim, txb.Cosmos{Msgs: []sdk.Msg{send(victim, other.Addr, big.NewInt(7))}, Gas: defaultGas, Fee: coinsOfGas(defaultGas, gwei10), ChainID: chain.ChainID, AccNum: num, Seq: sq})
			ref.DeliverTx(bz)
		}
		deliver(ref, base)
		if effects(ref) != effects(n) {
			return fail("unauthorised-effect:"+c.Kind+":"+m.Name, fmt.Sprintf("mutation %q (code %d, %s) changed the victim/recipient %s -> %s, which is not the effect of the signed transaction (%+v vs %+v)", m.Name, code, trunc(log), before, after, effects(n), effects(ref)))
		}
		st.Class("equivalent-encoding-accepted:" + c.Kind + ":" + m.Name)
		consumed = true
		before = after
	}
	wantMoved := new(big.Int).Set(amount)
	if !isEth {
		wantMoved = new(big.Int)
		for i := 0; i < c.NMsgs; i++ {
			wantMoved.Add(wantMoved, new(big.Int).Add(amount, big.NewInt(int64(i+1))))
		}
	}
	after := before
	if !consumed {
		// positive control: the unmodified transaction is accepted and executed on behalf of the victim
		code, log := deliver(n, base)
		after = obs()
		if code != 0 {
			return fail("valid-rejected:"+c.Kind, fmt.Sprintf("the unmodified transaction was rejected: code %d %s", code, trunc(log)))
		}
		if after.Seq != before.Seq+1 {
			return fail("sequence-not-incremented:"+c.Kind, fmt.Sprintf("sequence %d -> %d after the valid transaction", before.Seq, after.Seq))
		}
		if moved := new(big.Int).Sub(after.RecvBal, before.RecvBal); moved.Cmp(wantMoved) != 0 {
			return fail("valid-wrong-effect:"+c.Kind, fmt.Sprintf("recipient received %s, signed amount %s", moved, wantMoved))
		}
	}
	// replay
	code2, log2 := deliver(n, base)
	after2 := obs()
	if code2 == 0 || !after2.eq(after) {
		return fail("replay-accepted:"+c.Kind, fmt.Sprintf("replayed transaction: code %d (%s), state %s -> %s", code2, trunc(log2), after, after2))
	}
	st.Class("kind:" + c.Kind)
	return ""
}

// wrapEthFrom builds the eth envelope by hand so that the From field and the fee payer can be set.
func wrapEthFrom(tx *ethtypes.Transaction, from string, feePayer sdk.AccAddress) ([]byte, error) {
	msg := &evmtypes.MsgEthereumTx{}
	if err := msg.FromEthereumTx(tx); err != nil {
		return nil, err
	}
	msg.From = from
	b := txb.TxConfig().NewTxBuilder()
	eb := b.(interface {
		SetExtensionOptions(...*codectypes.Any)
	})
	eb.SetExtensionOptions(txb.MustAny(&evmtypes.ExtensionOptionsEthereumTx{}))
	if err := b.SetMsgs(msg); err != nil {
		return nil, err
	}
	td, err := evmtypes.UnpackTxData(msg.Data)
	if err != nil {
		return nil, err
	}
	b.SetFeeAmount(sdk.NewCoins(sdk.NewCoin(chain.Denom, sdkmath.NewIntFromBigInt(td.Fee()))))
	b.SetGasLimit(tx.Gas())
	if feePayer != nil {
		b.SetFeePayer(feePayer)
	}
	return txb.TxConfig().TxEncoder()(b.GetTx())
}

var _ = abci.ResponseDeliverTx{}

func init() {
	replayers["TestC03_Mutations"] = func(st *ev.Stats, raw json.RawMessage) string {
		var c C03Case
		must(json.Unmarshal(raw, &c))
		return runC03(st, c)
	}
}

func TestC03_Mutations(t *testing.T) {
	st := ev.New("C03", "TestC03_Mutations", "valid tx of one of 7 kinds (eth legacy/access-list/dynamic-fee, Cosmos DIRECT/AMINO, EIP-712 via pubkey fallback and via Web3 extension) with generated fields; every single-field mutation keeping the signature, foreign chain ids/account numbers and impersonations are delivered (CheckTx+DeliverTx), then the tx itself and its replay; non-trivial = distinct (kind, mutated field) pairs exercised")
	runCorpus(t, st)
	runRapid(t, st, 120, 6000, func(rt *rapid.T) {
		if msg := runC03(st, genC03(rt)); msg != "" {
			rt.Fatalf("%s", msg)
		}
	})
}

// ---------------------------------------------------------------------------------------------------------
// Orders: valid, duplicate, future and past sequence numbers interleaved over several blocks and two signers.

type C03OrderOp struct {
	Signer   int    `json:"signer"`
	Kind     string `json:"kind"`   // eth-legacy | eth-dynamic | cosmos-direct | eip712-web3
	Off      int    `json:"off"`    // nonce = current sequence + Off
	NEth     int    `json:"n_eth"`  // eth kinds: messages in one Cosmos tx (consecutive nonces)
	DupInTx  bool   `json:"dup"`    // eth multi: repeat the first nonce instead of consecutive ones
	Replay   int    `json:"replay"` // >0: re-submit the (Replay-1 mod len)-th earlier tx bytes instead of a new tx
	NewBlock bool   `json:"new_block"`
	Mixed    bool   `json:"mixed"`  // eth multi: messages alternate between the two signers (each with its own nonce)
	Create   int    `json:"create"` // eth multi: 1-based index of the message that is a contract creation (0 = none)
	// Foreign: eth multi: 1-based index of a message whose signature does not commit to this chain (0 = none):
	// ForeignKind 0 = unprotected (pre-EIP-155) legacy signature, 1 = signed for another chain id
	Foreign     int `json:"foreign,omitempty"`
	ForeignKind int `json:"foreign_kind,omitempty"`
}

type C03OrderCase struct {
	Ops []C03OrderOp `json:"ops"`
}

func genC03Order(t *rapid.T) C03OrderCase {
	n := rapid.IntRange(2, 12).Draw(t, "nops")
	var c C03OrderCase
	for i := 0; i < n; i++ {
		op := C03OrderOp{}
		op.Signer = rapid.IntRange(0, 1).Draw(t, "signer")
		op.Kind = rapid.SampledFrom([]string{"eth-legacy", "eth-legacy", "eth-dynamic", "eth-dynamic", "cosmos-direct", "cosmos-direct", "eip712-web3", "eip712-web3", "vest-convert", "vest-unconvert", "eth-forged-from"}).Draw(t, "kind")
		op.Off = rapid.SampledFrom([]int{0, 0, 0, 0, 1, 2, -1, -2}).Draw(t, "off")
		op.NEth = rapid.SampledFrom([]int{1, 1, 2, 3}).Draw(t, "neth")
		op.DupInTx = rapid.IntRange(0, 5).Draw(t, "dup") == 0
		if i > 0 && rapid.IntRange(0, 3).Draw(t, "replay") == 0 {
			op.Replay = 1 + rapid.IntRange(0, 20).Draw(t, "replay-idx")
		}
		op.NewBlock = rapid.IntRange(0, 2).Draw(t, "newblock") == 0
		op.Mixed = rapid.IntRange(0, 3).Draw(t, "mixed") == 0
		if rapid.IntRange(0, 3).Draw(t, "create") == 0 {
			op.Create = 1 + rapid.IntRange(0, 2).Draw(t, "create-idx")
		}
		if rapid.IntRange(0, 5).Draw(t, "foreign") == 0 {
			op.Foreign = 1 + rapid.IntRange(0, 2).Draw(t, "foreign-idx")
			op.ForeignKind = rapid.IntRange(0, 1).Draw(t, "foreign-kind")
			if op.NEth < 2 {
				op.NEth = 2 + rapid.IntRange(0, 1).Draw(t, "foreign-neth")
			}
		}
		c.Ops = append(c.Ops, op)
	}
	if rapid.IntRange(0, 3).Draw(t, "relabel-scenario") == 0 {
		// both accounts stand at the same sequence; one executes a transfer; the other then wraps exactly that
		// transaction, relabelled as its own, in front of a message of its own
		v := rapid.IntRange(0, 1).Draw(t, "rl-victim")
		c.Ops = append([]C03OrderOp{{Signer: v, Kind: "eth-legacy", NEth: 1}, {Signer: 1 - v, Kind: "eth-forged-from", NewBlock: rapid.Bool().Draw(t, "rl-newblock")}}, c.Ops...)
	}
	if rapid.IntRange(0, 3).Draw(t, "round-trip-scenario") == 0 {
		// an account with some history is turned into a vesting account whose schedule has already run out, turns itself
		// back, and an old transaction of it is submitted again
		v := rapid.IntRange(0, 1).Draw(t, "rt-victim")
		c.Ops = append([]C03OrderOp{{Signer: v, Kind: "cosmos-direct"}, {Signer: v, Kind: "eth-legacy", NEth: 1}, {Signer: 1 - v, Kind: "vest-convert", DupInTx: true, NewBlock: true},
			{Signer: v, Kind: "vest-unconvert"}, {Signer: v, Kind: "cosmos-direct", Replay: 1}, {Signer: v, Kind: "eth-legacy", Replay: 2}}, c.Ops...)
	}
	return c
}

func runC03Order(st *ev.Stats, c C03OrderCase) string {
	st.Eval()
	fail := func(key, what string) string { return st.Discrepancy(key, what, c) }
	n := c03Base().Fork()
	n.BeginBlock(chain.BlockIn{})
	signers := []chain.Account{chain.Acct("c03v0"), chain.Acct("c03x0")}
	recv := chain.Acct("c03x1")
	model := []uint64{0, 0}
	type sent struct {
		bz     []byte
		signer int
	}
	var history []sent
	ethDone := map[int][]*ethtypes.Transaction{} // executed single-message Ethereum transactions per signer
	var lastEth *ethtypes.Transaction
	price := big.NewInt(20_000_000_000)
	var replays, gaps, accepted int
	for i, op := range c.Ops {
		if op.NewBlock {
			n.EndBlockCommit()
			n.BeginBlock(chain.BlockIn{})
		}
		// the per-op expectations below are deltas; the counters themselves are re-read so that a tx that legitimately
		// executed for the other signer (mixed or replayed bytes) does not desynchronise later nonce choices
		for sg := range signers {
			_, model[sg] = txb.AccInfo(n.Ctx(), n.App, signers[sg].Addr)
		}
		a := signers[op.Signer]
		cur := model[op.Signer]
		var bz []byte
		wantOK := false
		var inc uint64
		multiSender := map[int]uint64{}
		converted := -1
		foreignTx := false
		signer := op.Signer
		if op.Replay > 0 && len(history) > 0 {
			h := history[(op.Replay-1)%len(history)]
			bz, signer = h.bz, h.signer
			wantOK = false // every earlier tx either executed (its sequence is spent) or was built for a non-current sequence...
			replays++
			// ...unless it was a rejected future-sequence tx whose sequence has become current in the meantime; that is a
			// legitimate first execution, so the expectation for it is derived from the chain's answer below
			bzIsFuture := true
			_ = bzIsFuture
		} else {
			if int64(cur)+int64(op.Off) < 0 {
				op.Off = 0
			}
			nonce := uint64(int64(cur) + int64(op.Off))
			switch op.Kind {
			case "eth-legacy", "eth-dynamic":
				typ := 0
				if op.Kind == "eth-dynamic" {
					typ = 2
				}
				var txs []*ethtypes.Transaction
				foreign := false
				incs := map[int]uint64{} // signer -> messages of that signer in this tx
				allCurrent := true
				for k := 0; k < op.NEth; k++ {
					sg := op.Signer
					if op.Mixed && k%2 == 1 {
						sg = 1 - op.Signer
					}
					base := model[sg]
					if sg == op.Signer {
						base = nonce // the drawn offset applies to the main signer
					}
					nk := base + incs[sg]
					if op.DupInTx && sg == op.Signer {
						nk = base
						if incs[sg] > 0 {
							allCurrent = false
						}
					}
					incs[sg]++
					to := recv.Hex
					e := txb.Eth{Type: typ, ChainID: big.NewInt(11235), Nonce: nk, To: &to, Value: big.NewInt(int64(i + 1)), Gas: 50000, GasPrice: price, FeeCap: price, TipCap: big.NewInt(1)}
					if op.Create == k+1 {
						e.To, e.Value, e.Gas, e.Data = nil, big.NewInt(0), 200000, []byte{0x60, 0x00, 0x60, 0x00, 0xf3} // init code returning empty runtime
					}
					if op.Foreign == k+1 {
						if op.ForeignKind == 0 {
							e.Type, e.Unprot = 0, true
						} else {
							e.ChainID = big.NewInt(54211)
						}
						foreign = true
					}
					txs = append(txs, txb.SignEth(signers[sg], e))
				}
				multiSender = incs
				lastEth = nil
				if len(txs) == 1 && !foreign {
					lastEth = txs[0]
				}
				_ = allCurrent
				var err error
				bz, err = txb.WrapEth(txs...)
				must(err)
				wantOK = op.Off == 0 && (!op.DupInTx || multiSender[op.Signer] == 1) && !foreign
				if foreign {
					foreignTx = true
				}
				inc = multiSender[op.Signer]
			case "vest-convert":
				// the signer turns the OTHER account into a vesting account (or adds a grant to it): that account's
				// sequence must survive, otherwise its old signed transactions become current again
				other := signers[1-op.Signer]
				num, _ := txb.AccInfo(n.Ctx(), n.App, a.Addr)
				lk := sdkvesting.Periods{{Length: 1000, Amount: sdk.NewCoins(sdk.NewCoin(chain.Denom, sdkmath.NewInt(int64(i+1))))}}
				start := n.Header.Time
				if op.DupInTx {
					start = start.Add(-5000 * time.Second) // a schedule that has already run out: the account can be converted back at once
				}
				msg := vestingtypes.NewMsgConvertIntoVestingAccount(a.Addr, other.Addr, start, lk, lk, true, false, nil)
				bz = txb.CosmosTx(a, txb.Cosmos{Msgs: []sdk.Msg{msg}, Gas: 1500000, Fee: coinsOfGas(1500000, price), ChainID: chain.ChainID, AccNum: num, Seq: nonce})
				wantOK = op.Off == 0
				inc = 1
				converted = 1 - op.Signer
			case "vest-unconvert":
				// the signer asks for its own account to become a plain account again (possible once its schedule has run
				// out); whether or not that succeeds, its sequence just moves on by one
				num, _ := txb.AccInfo(n.Ctx(), n.App, a.Addr)
				bz = txb.CosmosTx(a, txb.Cosmos{Msgs: []sdk.Msg{vestingtypes.NewMsgConvertVestingAccount(a.Addr)}, Gas: 600000, Fee: coinsOfGas(600000, price), ChainID: chain.ChainID, AccNum: num, Seq: nonce})
				wantOK = op.Off == 0
				inc = 1
			case "eth-forged-from":
				// a bundle whose first message is an already executed transaction of the OTHER signer, relabelled with this
				// signer's address in the (unsigned) From field, followed by a genuine message of this signer
				old := ethDone[1-op.Signer]
				if len(old) == 0 {
					continue
				}
				to := recv.Hex
				// prefer an old transaction whose nonce equals this signer's current sequence (it then passes a nonce check
				// made against the claimed sender); the genuine message takes the next number
				pick := old[len(old)-1]
				for _, o := range old {
					if o.Nonce() == cur {
						pick = o
					}
				}
				ownNonce := cur
				if pick.Nonce() == cur {
					ownNonce = cur + 1
					st.Class("forged-from:nonce-matches")
				}
				own := txb.SignEth(a, txb.Eth{Type: 0, ChainID: big.NewInt(11235), Nonce: ownNonce, To: &to, Value: big.NewInt(int64(i + 1)), Gas: 50000, GasPrice: price})
				var err error
				bz, err = c03WrapWithFrom([]*ethtypes.Transaction{pick, own}, []string{a.Hex.Hex(), ""})
				must(err)
				recv0 := n.Balance(recv.Addr)
				res := n.DeliverTx(bz)
				for sg := range signers {
					if _, sq := txb.AccInfo(n.Ctx(), n.App, signers[sg].Addr); sq != model[sg] || res.Code == 0 || n.Balance(recv.Addr).Cmp(recv0) != 0 {
						return fail("forged-from-in-bundle-executed", fmt.Sprintf("op %d %+v: a bundle carrying an old transaction of signer %d under signer %d's name was executed: code %d, sequence of signer %d %d -> %d, recipient %s -> %s",
							i, op, 1-op.Signer, op.Signer, res.Code, sg, model[sg], sq, recv0, n.Balance(recv.Addr)))
					}
				}
				st.Class("forged-from-bundle-rejected")
				continue
			default:
				num, _ := txb.AccInfo(n.Ctx(), n.App, a.Addr)
				cb := txb.Cosmos{Msgs: []sdk.Msg{banktypes.NewMsgSend(a.Addr, recv.Addr, sdk.NewCoins(sdk.NewCoin(chain.Denom, sdkmath.NewInt(int64(i+1)))))},
					Gas: 300000, Fee: coinsOfGas(300000, price), ChainID: chain.ChainID, AccNum: num, Seq: nonce}
				if op.Kind == "cosmos-direct" {
					bz = txb.CosmosTx(a, cb)
				} else {
					cb.Mode = signing.SignMode_SIGN_MODE_LEGACY_AMINO_JSON
					b, err := txb.EIP712(a, cb, 11235, true)
					must(err)
					bz = txb.Encode(b)
				}
				wantOK = op.Off == 0
				inc = 1
			}
			if op.Off != 0 {
				gaps++
			}
			history = append(history, sent{bz, op.Signer})
		}
		_, seqBefore := txb.AccInfo(n.Ctx(), n.App, signers[signer].Addr)
		res := n.DeliverTx(bz)
		_, seqAfter := txb.AccInfo(n.Ctx(), n.App, signers[signer].Addr)
		if converted >= 0 {
			if _, sq := txb.AccInfo(n.Ctx(), n.App, signers[converted].Addr); sq != model[converted] {
				return fail("sequence-changed-by-conversion", fmt.Sprintf("op %d %+v: turning signer %d's account into a vesting account moved its sequence %d -> %d (code %d)", i, op, converted, model[converted], sq, res.Code))
			}
			if res.Code == 0 {
				st.Class("account-converted-into-vesting")
			}
		}
		if op.Replay > 0 && len(history) > 0 {
			// a replayed tx may only execute if it never executed before AND its sequence is the current one; the model
			// cannot know the bytes' sequence cheaply, so use the invariant: sequence moves by the tx's own count only
			// when the tx's first sequence number equals the sequence before. That is checked through the per-signer
			// monotone counter: every executed tx advances it, and no tx bytes may advance it twice.
			if seqAfter != seqBefore {
				// find how often these bytes were already executed
				for _, h := range history {
					_ = h
				}
			}
			model[signer] = seqAfter
			if seqAfter != seqBefore {
				key := string(bz)
				if executedOnce[c03key(n, key)] {
					return fail("replay-accepted:order", fmt.Sprintf("op %d: tx bytes executed a second time (seq %d -> %d, code %d)", i, seqBefore, seqAfter, res.Code))
				}
				executedOnce[c03key(n, key)] = true
				accepted++
			}
			continue
		}
		if wantOK && op.Kind == "vest-unconvert" && seqAfter != seqBefore+inc {
			return fail("sequence-changed-by-conversion", fmt.Sprintf("op %d %+v: turning the account back into a plain account moved its sequence %d -> %d (code %d)", i, op, seqBefore, seqAfter, res.Code))
		}
		if wantOK {
			if seqAfter != seqBefore+inc {
				return fail("valid-rejected:order:"+op.Kind, fmt.Sprintf("op %d %+v: current-sequence tx not executed: seq %d -> %d code %d %s", i, op, seqBefore, seqAfter, res.Code, trunc(res.Log)))
			}
			model[signer] = seqAfter
			executedOnce[c03key(n, string(bz))] = true
			accepted++
			if lastEth != nil && (op.Kind == "eth-legacy" || op.Kind == "eth-dynamic") && op.Replay == 0 {
				ethDone[signer] = append(ethDone[signer], lastEth)
			}
			for sg, cnt := range multiSender {
				if sg == signer {
					continue
				}
				_, sq := txb.AccInfo(n.Ctx(), n.App, signers[sg].Addr)
				if sq != model[sg]+cnt {
					return fail("sequence-not-consumed:order:"+op.Kind, fmt.Sprintf("op %d %+v: the tx executed %d message(s) of signer %d but its sequence went %d -> %d", i, op, cnt, sg, model[sg], sq))
				}
				model[sg] = sq
			}
		} else if foreignTx {
			// a message whose signature does not commit to this chain makes the whole tx invalid: nobody's sequence moves
			for sg := range signers {
				if _, sq := txb.AccInfo(n.Ctx(), n.App, signers[sg].Addr); sq != model[sg] || res.Code == 0 {
					return fail("foreign-signature-accepted:order:"+op.Kind, fmt.Sprintf("op %d %+v: a tx with a message not signed for this chain was executed: code %d, sequence of signer %d %d -> %d", i, op, res.Code, sg, model[sg], sq))
				}
			}
			st.Class("foreign-signature-in-bundle-rejected")
		} else if seqAfter != seqBefore || res.Code == 0 {
			return fail("wrong-sequence-accepted:order:"+op.Kind, fmt.Sprintf("op %d %+v: tx for sequence %+d was executed: seq %d -> %d code %d", i, op, op.Off, seqBefore, seqAfter, res.Code))
		}
	}
	for k := range executedOnce {
		if len(k) > 0 && k[:len(c03prefix(n))] == c03prefix(n) {
			delete(executedOnce, k)
		}
	}
	if replays > 0 {
		st.Class("has-replay")
	}
	if gaps > 0 {
		st.Class("has-gap")
	}
	if accepted > 0 {
		st.Class("some-accepted")
	}
	if replays > 0 && gaps > 0 && accepted > 0 {
		st.NonTrivial(c)
	}
	return ""
}

var executedOnce = map[string]bool{}

func c03prefix(n *chain.Node) string        { return fmt.Sprintf("%p|", n) }
func c03key(n *chain.Node, k string) string { return c03prefix(n) + k }

func init() {
	replayers["TestC03_Orders"] = func(st *ev.Stats, raw json.RawMessage) string {
		var c C03OrderCase
		must(json.Unmarshal(raw, &c))
		return runC03Order(st, c)
	}
}

func TestC03_Orders(t *testing.T) {
	st := ev.New("C03", "TestC03_Orders", "2-12 submissions by two signers over several blocks: new txs (eth legacy/dynamic incl. several eth messages per Cosmos tx, Cosmos DIRECT, EIP-712 Web3) for the current, future or past sequence, and re-submissions of earlier tx bytes; non-trivial = contains a replay, a sequence gap and an accepted tx")
	runCorpus(t, st)
	runRapid(t, st, 200, 8000, func(rt *rapid.T) {
		if msg := runC03Order(st, genC03Order(rt)); msg != "" {
			rt.Fatalf("%s", msg)
		}
	})
}

// c03WrapWithFrom builds the Ethereum envelope by hand for several messages, each with a From field of the caller's choosing.
func c03WrapWithFrom(txs []*ethtypes.Transaction, from []string) ([]byte, error) {
	b := txb.TxConfig().NewTxBuilder()
	b.(interface {
		SetExtensionOptions(...*codectypes.Any)
	}).SetExtensionOptions(txb.MustAny(&evmtypes.ExtensionOptionsEthereumTx{}))
	var msgs []sdk.Msg
	fee := new(big.Int)
	var gas uint64
	for i, tx := range txs {
		msg := &evmtypes.MsgEthereumTx{}
		if err := msg.FromEthereumTx(tx); err != nil {
			return nil, err
		}
		msg.From = from[i]
		td, err := evmtypes.UnpackTxData(msg.Data)
		if err != nil {
			return nil, err
		}
		fee.Add(fee, td.Fee())
		gas += tx.Gas()
		msgs = append(msgs, msg)
	}
	if err := b.SetMsgs(msgs...); err != nil {
		return nil, err
	}
	b.SetFeeAmount(sdk.NewCoins(sdk.NewCoin(chain.Denom, sdkmath.NewIntFromBigInt(fee))))
	b.SetGasLimit(gas)
	return txb.TxConfig().TxEncoder()(b.GetTx())
}
