package props

// C04 — precompiles act only for the signer or caller, within grants.
//
// (A) Non-interference: generated call-tree programs (all four call kinds to frames AND to precompiles, delegator /
//     withdrawer arguments naming the signer, the calling contract, other contracts and a third party). For every
//     account that is neither the tx signer nor a contract that issued a precompile call: balance does not decrease;
//     delegations, unbondings, redelegations, pending rewards, withdraw address and grants-as-granter are identical
//     before and after.
// (B) Allowance ledger: histories of approve / increaseAllowance / decreaseAllowance / revoke by the signer and spends
//     (delegate / undelegate / redelegate of the signer's stake) through contracts, with amounts around the limit and
//     time jumps past the one-year expiry. Oracle: reference ledger (grantee, msg type) -> {unlimited | limit, expiry};
//     a spend through a contract succeeds only with a live grant covering the amount, a covered valid spend succeeds,
//     and after every step the on-chain grant equals the ledger (limit - amount, deleted at 0).

import (
	"encoding/json"
	"fmt"
	"math/big"
	"testing"
	"time"

	sdk "github.com/cosmos/cosmos-sdk/types"
	distrkeeper "github.com/cosmos/cosmos-sdk/x/distribution/keeper"
	distrtypes "github.com/cosmos/cosmos-sdk/x/distribution/types"
	stakingtypes "github.com/cosmos/cosmos-sdk/x/staking/types"
	"github.com/ethereum/go-ethereum/accounts/abi"
	"github.com/ethereum/go-ethereum/common"
	"pgregory.net/rapid"

	"verif/chain"
	"verif/ev"
	"verif/evmasm"
	"verif/pabi"
	"verif/txb"
)

func pxPending(n *chain.Node, addr sdk.AccAddress) string {
	q := distrkeeper.NewQuerier(n.App.DistrKeeper)
	out := ""
	for _, d := range n.App.StakingKeeper.GetDelegatorDelegations(n.Ctx(), addr, 100) {
		cctx, _ := n.Ctx().CacheContext()
		res, err := q.DelegationRewards(sdk.WrapSDKContext(cctx), &distrtypes.QueryDelegationRewardsRequest{DelegatorAddress: addr.String(), ValidatorAddress: d.ValidatorAddress})
		if err == nil {
			out += d.ValidatorAddress + "=" + res.Rewards.String() + ";"
		}
	}
	return out
}

func runC04A(st *ev.Stats, p PxProgram) string {
	st.Eval()
	fail := func(key, what string) string { return st.Discrepancy(key, what, p) }
	n := pxBase().Fork()
	n.BeginBlock(chain.BlockIn{})
	prog, ctxOf := pxPrepare(n, p)
	_ = prog
	// contracts that issue precompile calls (immediate callers)
	callers := map[string]bool{}
	named := map[string]bool{}
	for i, f := range p.Frames {
		for _, op := range f.Ops {
			if op.Kind == "pre" {
				callers[ctxOf[i].Hex()] = true
				if op.Pre.Who == "third" {
					named["third"] = true
				}
			}
		}
	}
	reach := map[string]bool{}
	if p.Direct == nil {
		for i := range c05Reachable(p) {
			reach[ctxOf[i].Hex()] = true
			reach[evmasm.FrameAddr(i).Hex()] = true
		}
	}
	accounts := pxAllAccounts()
	type snap struct {
		st      pxAccountState
		pending string
	}
	watch := map[string]sdk.AccAddress{}
	for name, a := range accounts {
		h := common.BytesToAddress(a.Bytes()).Hex()
		if name == "signer" || callers[h] || reach[h] {
			continue // a contract that executes may spend its own funds with plain EVM value transfers
		}
		switch name {
		case "third", "w", "other", "frame0", "frame1", "frame2", "frame3":
			watch[name] = a
		}
	}
	before := map[string]snap{}
	for name, a := range watch {
		before[name] = snap{pxAccount(n, a), pxPending(n, a)}
	}
	bz, _ := pxTxBytes(n, p)
	res := n.DeliverTx(bz)
	thirdParty := false
	for name, a := range watch {
		after := snap{pxAccount(n, a), pxPending(n, a)}
		b := before[name]
		role := name
		if len(name) > 5 && name[:5] == "frame" {
			role = "bystander-contract"
		}
		bb, _ := new(big.Int).SetString(b.st.Balance, 10)
		ab, _ := new(big.Int).SetString(after.st.Balance, 10)
		if ab.Cmp(bb) < 0 {
			return fail("funds-decreased:"+role, fmt.Sprintf("%s is neither signer nor a calling contract but its balance fell %s -> %s (tx code %d)", name, bb, ab, res.Code))
		}
		for field, pair := range map[string][2]string{"delegations": {b.st.Dels, after.st.Dels}, "unbondings": {b.st.Ubds, after.st.Ubds}, "redelegations": {b.st.Reds, after.st.Reds},
			"withdraw-address": {b.st.Withdraw, after.st.Withdraw}, "grants": {b.st.Grants, after.st.Grants}, "pending-rewards": {b.pending, after.pending}} {
			if pair[0] != pair[1] {
				return fail("third-party-state-changed:"+field+":"+role, fmt.Sprintf("%s of %s changed although it is neither signer nor caller: %s -> %s", field, name, trunc(pair[0]), trunc(pair[1])))
			}
		}
		if name == "third" && named["third"] {
			thirdParty = true
		}
	}
	if res.Code == 0 {
		st.Class("tx-included")
	}
	if thirdParty {
		st.Class("names-third-party")
		sig := []string{}
		for _, f := range p.Frames {
			for _, op := range f.Ops {
				if op.Pre != nil {
					sig = append(sig, op.Pre.Method+"/"+op.Pre.Who+"/"+op.CallOp)
				}
			}
		}
		st.NonTrivial(sig)
	}
	return ""
}

// ---- (B) allowance ledger -------------------------------------------------------------------------------------

type C04Op struct {
	K   string `json:"k"`   // approve | increase | decrease | revoke | spend | advance
	G   int    `json:"g"`   // grantee frame 0..2
	M   int    `json:"m"`   // 0 delegate, 1 undelegate, 2 redelegate
	M2  bool   `json:"m2"`  // approve/increase/decrease/revoke for all three methods at once
	Amt string `json:"amt"` // milli-ISLM; "max" = MaxUint256
	Val int    `json:"val"`
	Dt  int64  `json:"dt"`
}

type C04Case struct {
	Ops []C04Op `json:"ops"`
}

var c04Msgs = []string{"/cosmos.staking.v1beta1.MsgDelegate", "/cosmos.staking.v1beta1.MsgUndelegate", "/cosmos.staking.v1beta1.MsgBeginRedelegate"}
var c04Methods = []string{"delegate", "undelegate", "redelegate"}

func genC04(t *rapid.T) C04Case {
	c := C04Case{}
	n := rapid.IntRange(2, 9).Draw(t, "nops")
	for i := 0; i < n; i++ {
		kinds := []string{"approve", "increase", "decrease", "revoke", "spend", "spend", "spend", "advance", "new-validator"}
		if i == 0 {
			kinds = []string{"approve", "approve", "spend"}
		}
		op := C04Op{K: rapid.SampledFrom(kinds).Draw(t, "k")}
		op.G = rapid.IntRange(0, 2).Draw(t, "g")
		op.M = rapid.IntRange(0, 2).Draw(t, "m")
		op.M2 = rapid.IntRange(0, 3).Draw(t, "m2") == 0
		op.Amt = rapid.SampledFrom([]string{"0", "1", "1000", "399000", "400000", "400001", "800000", "max", "100000"}).Draw(t, "amt")
		op.Val = rapid.SampledFrom([]int{0, 0, 1, 1, 2}).Draw(t, "val") // 2 = the validator created during the history (if any)
		op.Dt = rapid.SampledFrom([]int64{5, 86400, 364 * 86400, 366 * 86400}).Draw(t, "dt")
		c.Ops = append(c.Ops, op)
	}
	if rapid.IntRange(0, 4).Draw(t, "late-validator-scenario") == 0 {
		// a grant (unlimited, limited or the one from the prelude), then a new validator appears, then the grantee
		// stakes the signer's coins with it / redelegates to it
		g := rapid.IntRange(0, 2).Draw(t, "lv-g")
		m := rapid.SampledFrom([]int{0, 0, 2}).Draw(t, "lv-m")
		var sc []C04Op
		if lim := rapid.SampledFrom([]string{"", "max", "max", "400000"}).Draw(t, "lv-limit"); lim != "" {
			sc = append(sc, C04Op{K: "approve", G: g, M: m, Amt: lim})
		}
		sc = append(sc, C04Op{K: "new-validator"}, C04Op{K: "spend", G: g, M: m, Amt: "1000", Val: 2})
		if rapid.Bool().Draw(t, "lv-again") {
			sc = append(sc, C04Op{K: "spend", G: g, M: 0, Amt: "1", Val: 0})
		}
		c.Ops = append(sc, c.Ops...)
		if len(c.Ops) > 10 {
			c.Ops = c.Ops[:10]
		}
	}
	if rapid.IntRange(0, 4).Draw(t, "expiry-scenario") == 0 {
		// approve (unlimited or limited), use the grant, let time pass to just before / just after its expiry, use it again
		g, m, v := rapid.IntRange(0, 2).Draw(t, "sc-g"), rapid.IntRange(0, 2).Draw(t, "sc-m"), rapid.IntRange(0, 1).Draw(t, "sc-val")
		if m != 0 {
			m = rapid.IntRange(0, 1).Draw(t, "sc-m2") // mostly delegate / undelegate: they succeed in the prepared state
		}
		limit := rapid.SampledFrom([]string{"max", "max", "400000", "800000"}).Draw(t, "sc-limit")
		sc := []C04Op{{K: "approve", G: g, M: m, Amt: limit, Val: v}, {K: "spend", G: g, M: m, Amt: "1000", Val: v}}
		if rapid.Bool().Draw(t, "sc-twice") {
			sc = append(sc, C04Op{K: "spend", G: g, M: m, Amt: "1", Val: v})
		}
		sc = append(sc, C04Op{K: "advance", Dt: rapid.SampledFrom([]int64{364 * 86400, 366 * 86400, 366 * 86400}).Draw(t, "sc-dt")}, C04Op{K: "spend", G: g, M: m, Amt: "1000", Val: v})
		c.Ops = append(sc, c.Ops...)
		if len(c.Ops) > 10 {
			c.Ops = c.Ops[:10]
		}
	}
	return c
}

type c04Grant struct {
	Unlimited bool
	Limit     *big.Int
	Expiry    time.Time
	Allow     map[string]bool // validators the grant names (all unjailed validators at approval time)
}

func runC04B(st *ev.Stats, c C04Case) string {
	st.Eval()
	fail := func(key, what string) string { return st.Discrepancy(key, what, c) }
	n := pxBase().Fork()
	n.BeginBlock(chain.BlockIn{})
	app := n.App
	vals := pxVals(n)
	// reference ledger, initialised from the prelude: frames 0 and 1 were approved for 400 / 800 ISLM on all three types
	ledger := map[string]*c04Grant{}
	key := func(g, m int) string { return fmt.Sprintf("%d|%d", g, m) }
	for g := 0; g < pxFrames; g++ {
		for m := range c04Msgs {
			a, exp := app.AuthzKeeper.GetAuthorization(n.Ctx(), pxFrameAcc(g), pxSigner.Addr, c04Msgs[m])
			if a != nil {
				sa := a.(*stakingtypes.StakeAuthorization)
				gr := &c04Grant{Expiry: chain.GenesisTime.AddDate(100, 0, 0), Allow: map[string]bool{}}
				if al := sa.GetAllowList(); al != nil {
					for _, v := range al.Address {
						gr.Allow[v] = true
					}
				}
				if exp != nil {
					gr.Expiry = *exp
				}
				if sa.MaxTokens == nil {
					gr.Unlimited = true
				} else {
					gr.Limit = sa.MaxTokens.Amount.BigInt()
				}
				ledger[key(g, m)] = gr
			}
		}
	}
	year := 365 * 24 * time.Hour
	ethCall := func(to common.Address, data []byte) (uint32, string, string) {
		_, seq := txb.AccInfo(n.Ctx(), app, pxSigner.Addr)
		bz := txb.EthTx(pxSigner, txb.Eth{Type: 0, ChainID: big.NewInt(11235), Nonce: seq, To: &to, Value: big.NewInt(0), Gas: 3000000, GasPrice: new(big.Int).Mul(gwei10, big.NewInt(100)), Data: data})
		res := n.DeliverTx(bz)
		vmErr, _ := decodeEthResponse(res.Data)
		return res.Code, vmErr, res.Log
	}
	limitedSpend, crossedExpiry := false, false
	newVal := "" // operator address of the validator created during the history
	for i, op := range c.Ops {
		now := n.Header.Time
		methods := []int{op.M}
		if op.M2 {
			methods = []int{0, 1, 2}
		}
		var urls []string
		for _, m := range methods {
			urls = append(urls, c04Msgs[m])
		}
		amt := milli("0")
		isMax := op.Amt == "max"
		if isMax {
			amt = abi.MaxUint256
		} else {
			amt = milli(op.Amt)
		}
		grantee := evmasm.FrameAddr(op.G)
		live := func(m int) *c04Grant {
			g := ledger[key(op.G, m)]
			if g == nil || g.Expiry.Before(now) { // authz treats a grant as existing up to and including its expiry instant

				return nil
			}
			return g
		}
		switch op.K {
		case "advance":
			n.EndBlockCommit()
			n.BeginBlock(chain.BlockIn{Dt: time.Duration(op.Dt) * time.Second})
			if op.Dt > 360*86400 {
				crossedExpiry = true
			}
			continue
		case "new-validator":
			// somebody creates a validator after the approvals were given: no existing grant names it
			if newVal == "" {
				num, sq := txb.AccInfo(n.Ctx(), app, pxOther.Addr)
				m, err := stakingtypes.NewMsgCreateValidator(sdk.ValAddress(pxOther.Addr), pxNewValKey.PubKey(), islm(1000), stakingtypes.NewDescription("late", "", "", "", ""),
					stakingtypes.NewCommissionRates(sdk.NewDecWithPrec(10, 2), sdk.NewDecWithPrec(20, 2), sdk.NewDecWithPrec(1, 2)), sdk.OneInt())
				must(err)
				if r := n.DeliverTx(txb.CosmosTx(pxOther, txb.Cosmos{Msgs: []sdk.Msg{m}, Gas: 900000, Fee: coinsOfGas(900000, gwei10), ChainID: chain.ChainID, AccNum: num, Seq: sq})); r.Code == 0 {
					newVal = sdk.ValAddress(pxOther.Addr).String()
					st.Class("validator-created-after-approvals")
				}
			}
			continue
		case "approve":
			code, vmErr, log := ethCall(pabi.StakingAddr, pabi.Pack("staking", "approve", grantee, amt, urls))
			ok := code == 0 && vmErr == ""
			if !ok && (isMax || amt.Sign() > 0) {
				return fail("approve-rejected", fmt.Sprintf("op %d approve %s %v failed: %d %s %s", i, op.Amt, urls, code, vmErr, trunc(log)))
			}
			if ok {
				allow := map[string]bool{}
				for _, v := range app.StakingKeeper.GetAllValidators(n.Ctx()) {
					if !v.IsJailed() {
						allow[v.OperatorAddress] = true
					}
				}
				for _, m := range methods {
					switch {
					case isMax:
						ledger[key(op.G, m)] = &c04Grant{Unlimited: true, Expiry: now.Add(year), Allow: allow}
					case amt.Sign() == 0:
						delete(ledger, key(op.G, m))
					default:
						ledger[key(op.G, m)] = &c04Grant{Limit: new(big.Int).Set(amt), Expiry: now.Add(year), Allow: allow}
					}
				}
			}
		case "increase", "decrease":
			if isMax {
				continue
			}
			name := map[string]string{"increase": "increaseAllowance", "decrease": "decreaseAllowance"}[op.K]
			code, vmErr, _ := ethCall(pabi.StakingAddr, pabi.Pack("staking", name, grantee, amt, urls))
			if code == 0 && vmErr == "" {
				for _, m := range methods {
					g := live(m)
					if g == nil || g.Unlimited {
						continue
					}
					if op.K == "increase" {
						g.Limit = new(big.Int).Add(g.Limit, amt)
					} else {
						g.Limit = new(big.Int).Sub(g.Limit, amt)
					}
				}
			}
		case "revoke":
			code, vmErr, _ := ethCall(pabi.StakingAddr, pabi.Pack("staking", "revoke", grantee, urls))
			if code == 0 && vmErr == "" {
				for _, m := range methods {
					delete(ledger, key(op.G, m))
				}
			}
		case "spend":
			if isMax || amt.Sign() == 0 {
				continue
			}
			// install a one-op program at the grantee frame and call it
			val, val2 := vals[op.Val%len(vals)].OperatorAddress, vals[(op.Val+1)%len(vals)].OperatorAddress
			named := val // the validator the grant has to name
			if op.Val == 2 && newVal != "" {
				switch op.M {
				case 0:
					val, named = newVal, newVal
				case 2:
					val, val2, named = vals[0].OperatorAddress, newVal, newVal
				}
			} else if op.M == 2 {
				named = val2
			}
			var data []byte
			switch op.M {
			case 0:
				data = pabi.Pack("staking", "delegate", pxSigner.Hex, val, amt)
			case 1:
				data = pabi.Pack("staking", "undelegate", pxSigner.Hex, val, amt)
			default:
				data = pabi.Pack("staking", "redelegate", pxSigner.Hex, val, val2, amt)
			}
			prog := evmasm.Program{Frames: make([]evmasm.Frame, op.G+1)}
			prog.Frames[op.G] = evmasm.Frame{Ops: []evmasm.Op{{Kind: "pre", CallOp: "CALL", Target: pabi.StakingAddr.Hex(), Data: fmt.Sprintf("%x", data), Value: "0"}}}
			n.InstallCode(grantee, prog.Compile()[op.G])
			// clear the result slot of an earlier spend through the same frame
			before := n.Storage(grantee, evmasm.ResultSlot(op.G, 0))
			_ = before
			g := live(op.M)
			if g != nil && g.Expiry.Equal(now) {
				// exactly at the expiry instant the grant still exists for authz but can no longer be re-saved
				// ("expiration must be after the current block time"), so whether a spend goes through is not
				// determined by the property: no expectation, the grant comparison below still runs
				st.Class("spend-at-the-expiry-instant")
				ethCall(grantee, nil)
				if a, _ := app.AuthzKeeper.GetAuthorization(n.Ctx(), pxFrameAcc(op.G), pxSigner.Addr, c04Msgs[op.M]); a == nil {
					delete(ledger, key(op.G, op.M))
				} else if sa := a.(*stakingtypes.StakeAuthorization); sa.MaxTokens != nil && !g.Unlimited {
					g.Limit = sa.MaxTokens.Amount.BigInt()
				}
				continue
			}
			covered := g != nil && (g.Unlimited || amt.Cmp(g.Limit) <= 0)
			outsideAllowList := covered && !g.Allow[named]
			if outsideAllowList {
				covered = false
			}
			delBefore := pxAccount(n, pxSigner.Addr)
			code, vmErr, log := ethCall(grantee, nil)
			flag := int(n.Storage(grantee, evmasm.ResultSlot(op.G, 0)).Big().Int64()) - 1
			delAfter := pxAccount(n, pxSigner.Addr)
			changed := delBefore.Dels != delAfter.Dels || delBefore.Ubds != delAfter.Ubds || delBefore.Reds != delAfter.Reds
			desc := fmt.Sprintf("op %d spend %s %s ISLM-milli via frame%d: tx code %d vm %q flag %d; ledger grant %+v (now %s): %s", i, c04Methods[op.M], op.Amt, op.G, code, vmErr, flag, g, now.Format(time.RFC3339), trunc(log))
			if !covered {
				if outsideAllowList && flag != 1 && changed {
					// refused, but only after the stake had been moved (the grant is consulted after the staking message
					// ran, and the failing call's Cosmos-side writes stay): listed finding
					if msg := fail("late-accept-failure:staking."+c04Methods[op.M], desc+"; the grant does not name validator "+named); msg != "" {
						return msg
					}
					st.Class("known:late-accept-failure:staking." + c04Methods[op.M])
					continue
				}
				if flag == 1 || changed {
					k := "spend-without-grant:" + c04Methods[op.M]
					if outsideAllowList {
						k = "spend-outside-allow-list:" + c04Methods[op.M]
					} else if g != nil {
						k = "overspend:" + c04Methods[op.M]
					}
					return fail(k, desc)
				}
				st.Class("uncovered-spend-refused")
				continue
			}
			// covered: a valid staking operation must go through (the signer has stake on vals 0 and 1 and funds)
			if flag != 1 {
				if code == 0 {
					// refused although the grant covers it: acceptable only if the staking module itself refuses the
					// operation for this account in this state (nothing delegated there, a redelegation still in
					// progress, too many entries, ...), which the signer's own native message shows on a scratch context
					var native sdk.Msg
					vAddr, _ := sdk.ValAddressFromBech32(val)
					vAddr2, _ := sdk.ValAddressFromBech32(val2)
					coin := sdk.NewCoin(chain.Denom, sdk.NewIntFromBigInt(amt))
					switch op.M {
					case 0:
						native = stakingtypes.NewMsgDelegate(pxSigner.Addr, vAddr, coin)
					case 1:
						native = stakingtypes.NewMsgUndelegate(pxSigner.Addr, vAddr, coin)
					default:
						native = stakingtypes.NewMsgBeginRedelegate(pxSigner.Addr, vAddr, vAddr2, coin)
					}
					cctx, _ := n.Ctx().CacheContext()
					if _, err := app.MsgServiceRouter().Handler(native)(cctx, native); err == nil {
						return fail("covered-spend-refused:"+c04Methods[op.M], desc)
					}
					st.Class("covered-spend-refused-by-staking-rules:" + c04Methods[op.M])
				}
				continue
			}
			if !g.Unlimited {
				limitedSpend = true
				g.Limit = new(big.Int).Sub(g.Limit, amt)
				if g.Limit.Sign() == 0 {
					delete(ledger, key(op.G, op.M))
				}
			}
			st.Class("spend-ok:" + c04Methods[op.M])
		}
		// after every step the on-chain grants equal the ledger
		for g := 0; g < 3; g++ {
			for m := range c04Msgs {
				a, exp := app.AuthzKeeper.GetAuthorization(n.Ctx(), pxFrameAcc(g), pxSigner.Addr, c04Msgs[m])
				l := ledger[key(g, m)]
				if l != nil && l.Expiry.Before(n.Header.Time) {
					l = nil
				}
				switch {
				case a == nil && l == nil:
				case a == nil || l == nil:
					// a limited grant decreased to exactly zero by decreaseAllowance is stored with limit 0: it authorises nothing
					if a != nil {
						if sa := a.(*stakingtypes.StakeAuthorization); sa.MaxTokens != nil && sa.MaxTokens.Amount.IsZero() {
							continue
						}
					}
					if l != nil && !l.Unlimited && l.Limit.Sign() == 0 {
						continue
					}
					return fail("grant-ledger-mismatch:"+op.K, fmt.Sprintf("after op %d %+v: on-chain grant frame%d/%s = %v, ledger %+v", i, op, g, c04Methods[m], a, l))
				default:
					sa := a.(*stakingtypes.StakeAuthorization)
					if (sa.MaxTokens == nil) != l.Unlimited || (!l.Unlimited && sa.MaxTokens.Amount.BigInt().Cmp(l.Limit) != 0) {
						return fail("grant-ledger-mismatch:"+op.K, fmt.Sprintf("after op %d %+v: on-chain limit frame%d/%s = %v, ledger %+v", i, op, g, c04Methods[m], sa.MaxTokens, l))
					}
					if exp == nil {
						return fail("grant-expiry-mismatch:"+op.K, fmt.Sprintf("after op %d %+v: the on-chain grant frame%d/%s has no expiration, ledger says %s", i, op, g, c04Methods[m], l.Expiry))
					}
					if !exp.Equal(l.Expiry) {
						return fail("grant-expiry-mismatch:"+op.K, fmt.Sprintf("after op %d: expiry %s, ledger %s", i, exp, l.Expiry))
					}
				}
			}
		}
	}
	if limitedSpend {
		st.Class("limited-spend")
	}
	if crossedExpiry {
		st.Class("crossed-expiry")
	}
	if limitedSpend {
		st.NonTrivial(c)
	}
	return ""
}

func init() {
	replayers["TestC04_NonInterference"] = func(st *ev.Stats, raw json.RawMessage) string {
		var p PxProgram
		must(json.Unmarshal(raw, &p))
		return runC04A(st, p)
	}
	replayers["TestC04_Allowance"] = func(st *ev.Stats, raw json.RawMessage) string {
		var c C04Case
		must(json.Unmarshal(raw, &c))
		return runC04B(st, c)
	}
}

func TestC04_NonInterference(t *testing.T) {
	st := ev.New("C04", "TestC04_NonInterference", "generated call tree (1-4 frames, all four call kinds to frames and to precompiles, reverting frames allowed) whose precompile calls name the signer, the calling contract or a third party; non-trivial = the program names the third party in a precompile call; distinct by (method, named role, call kind) list")
	runCorpus(t, st)
	runRapid(t, st, 1500, 40000, func(rt *rapid.T) {
		p := genPxProgram(rt, pxGenOpts{Reverts: true, CallKinds: []string{"DELEGATECALL", "CALLCODE", "STATICCALL"}, PreMethods: append([]string{"commission"}, pxTxMethods...), MaxFrames: 4})
		if msg := runC04A(st, p); msg != "" {
			rt.Fatalf("%s", msg)
		}
	})
}

func TestC04_Allowance(t *testing.T) {
	st := ev.New("C04", "TestC04_Allowance", "history of 2-9 approve / increaseAllowance / decreaseAllowance / revoke calls by the signer and spends (delegate / undelegate / redelegate of the signer's stake) through three contracts, amounts around the limits (limit-1, limit, limit+1, MaxUint256), block-time jumps past the one-year expiry; non-trivial = contains a successful spend under a limited grant")
	runCorpus(t, st)
	runRapid(t, st, 300, 15000, func(rt *rapid.T) {
		if msg := runC04B(st, genC04(rt)); msg != "" {
			rt.Fatalf("%s", msg)
		}
	})
}
