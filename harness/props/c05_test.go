package props

// C05 — a reverted EVM call frame leaves no trace, precompiles included.
//
// Differential oracle: program P contains a frame F (anywhere in the tree) that ends in REVERT / INVALID / runs out of
// gas while its parent carries on; program P' is identical except that F's body is removed (it fails immediately).
// Both run on forks of the same state; after the block every KV store of the two nodes must be identical once gas is
// normalised (signer and fee collector balances adjusted by gasUsed x price, fee-market block-gas figure ignored).
// Second oracle: a transaction whose top-level call fails changes nothing except fee and nonce (store dump equals the
// dump of a fork that received an immediately-failing program).

import (
	"encoding/json"
	"fmt"
	"math/big"
	"os"
	"sort"
	"strings"
	"testing"

	authtypes "github.com/cosmos/cosmos-sdk/x/auth/types"
	banktypes "github.com/cosmos/cosmos-sdk/x/bank/types"
	"pgregory.net/rapid"

	"verif/chain"
	"verif/ev"
	"verif/evmasm"
)

type C05Case struct {
	Prog PxProgram `json:"prog"`
	F    int       `json:"f"`   // the frame that fails
	How  string    `json:"how"` // revert | invalid | oog
}

func genC05(t *rapid.T) C05Case {
	p := genPxProgram(t, pxGenOpts{Reverts: false, CallKinds: []string{"DELEGATECALL", "CALLCODE"}, PreMethods: append(append([]string{}, pxTxMethods...), pxQueryMethods...), MaxFrames: 4})
	p.Direct = nil
	if len(p.Frames) == 0 {
		p.Frames = []PxFrame{{Ops: []PxOp{{Op: evmasm.Op{Kind: "sstore", Key: 1, Val: 1}}}}}
	}
	p.Create = rapid.IntRange(0, 4).Draw(t, "create") == 0
	c := C05Case{Prog: p}
	c.F = rapid.IntRange(0, len(p.Frames)-1).Draw(t, "f")
	if p.Create && rapid.Bool().Draw(t, "ctor-fails") {
		c.F = 0
	}
	c.How = rapid.SampledFrom([]string{"revert", "revert", "invalid", "oog"}).Draw(t, "how")
	return c
}

// subtree returns the frames reachable from f (f included).
func c05Subtree(p PxProgram, f int) map[int]bool {
	out := map[int]bool{f: true}
	for changed := true; changed; {
		changed = false
		for i, fr := range p.Frames {
			if !out[i] {
				continue
			}
			for _, op := range fr.Ops {
				if op.Kind == "call" && !out[op.Child] {
					out[op.Child] = true
					changed = true
				}
				// a plain value send to a contract runs that contract's code too (under the gas stipend): enough for it
				// to enter a precompile, whose first action is the StateDB flush
				if op.Kind == "send" && len(op.Target) == 6 && op.Target[:5] == "frame" {
					if k := int(op.Target[5] - '0'); k >= 0 && k < len(p.Frames) && !out[k] {
						out[k] = true
						changed = true
					}
				}
			}
		}
	}
	return out
}

func c05Reachable(p PxProgram) map[int]bool { return c05Subtree(p, 0) }

func withFailure(p PxProgram, f int, how string, keepBody bool) PxProgram {
	q := PxProgram{Value: p.Value, SetW: p.SetW, Create: p.Create}
	for i, fr := range p.Frames {
		nf := PxFrame{}
		if i != f || keepBody {
			nf.Ops = append(nf.Ops, fr.Ops...)
		}
		if i == f {
			switch how {
			case "invalid":
				nf.Ops = append(nf.Ops, PxOp{Op: evmasm.Op{Kind: "invalid"}})
			case "oog":
				nf.Ops = append(nf.Ops, PxOp{Op: evmasm.Op{Kind: "burn", Loop: 100000000}})
			default:
				nf.Ops = append(nf.Ops, PxOp{Op: evmasm.Op{Kind: "revert"}})
			}
		}
		q.Frames = append(q.Frames, nf)
	}
	return q
}

func runC05(st *ev.Stats, c C05Case) string {
	st.Eval()
	fail := func(key, what string) string { return st.Discrepancy(key, what, c) }
	if !c05Reachable(c.Prog)[c.F] {
		st.Class("failing-frame-unreachable")
		return ""
	}
	run := func(p PxProgram) (map[string]map[string][]byte, pxResult, *chain.Node) {
		n := pxBase().Fork()
		n.BeginBlock(chain.BlockIn{})
		r := pxRun(n, p)
		n.EndBlockCommit()
		return n.DumpStores(), r, n
	}
	dumpP, resP, _ := run(withFailure(c.Prog, c.F, c.How, true))
	dumpQ, resQ, _ := run(withFailure(c.Prog, c.F, c.How, false))
	if resP.Code != 0 || resQ.Code != 0 {
		// the whole tx was refused or failed at the message level in one of the runs: handled by the second oracle below
		if resP.Code != resQ.Code {
			st.Class("tx-level-outcome-differs")
		}
	}
	// normalise gas: bank balances of signer and fee collector, fee-market block gas
	feeDelta := new(big.Int).Sub(resP.Fee, resQ.Fee)
	signerKey, feeCollKey := bankBalanceKey(pxSigner.Addr), bankBalanceKey(authtypes.NewModuleAddress(authtypes.FeeCollectorName))
	var diffs []chain.Diff
	subAddr := map[string]bool{}
	for i := range c05Subtree(c.Prog, c.F) {
		subAddr[string(evmasm.FrameAddr(i).Bytes())] = true
	}
	for _, d := range chain.DiffStores(dumpQ, dumpP) {
		switch {
		case d.Store == "feemarket":
			continue
		case d.Store == "evm" && len(d.Key) > 0 && d.Key[0] == 0x01:
			continue // contract code table: P and P' necessarily install different code for the failing frame
		case d.Store == "acc" && len(d.Key) == 21 && subAddr[string(d.Key[1:])]:
			continue // account records carry the code hash: the failing frame's differs by construction, and frames below it
			// (unreachable in P') may be compiled against a different calling context
		case d.Store == "bank" && string(d.Key) == signerKey:
			if adjusted(d.A, d.B, new(big.Int).Neg(feeDelta)) {
				continue
			}
		case d.Store == "bank" && string(d.Key) == feeCollKey:
			if adjusted(d.A, d.B, feeDelta) {
				continue
			}
		}
		// result flags live in storage: the flag slots of ops inside the failing subtree are never written in either
		// run (reverted), flags outside are identical; nothing to normalise there
		diffs = append(diffs, d)
	}
	sub := c05Subtree(c.Prog, c.F)
	// the comparison is meaningful only if everything OUTSIDE the failed subtree took the same course in both runs
	// (the body of F consumes gas, which can starve a later sibling or the parent: a legitimate difference)
	for k, v := range resP.Flags {
		if !sub[k[0]] && resQ.Flags[k] != v {
			st.Class("gas-dependent-divergence-outside-subtree")
			return ""
		}
	}
	if resP.TxFailed != resQ.TxFailed || resP.Code != resQ.Code {
		st.Class("gas-dependent-divergence-outside-subtree")
		return ""
	}
	var txMethods, queryMethods []string
	pureKinds := map[string]bool{}
	for i := range sub {
		for _, op := range c.Prog.Frames[i].Ops {
			if op.Kind == "pre" {
				if op.Pre.Pre == "bank" || op.Pre.Method == "delegation" {
					queryMethods = append(queryMethods, op.Pre.Pre+"."+op.Pre.Method)
				} else {
					txMethods = append(txMethods, op.Pre.Pre+"."+op.Pre.Method)
				}
			} else {
				pureKinds[op.Kind] = true
			}
		}
	}
	sort.Strings(txMethods)
	sort.Strings(queryMethods)
	if len(diffs) > 0 && os.Getenv("VERIF_DEBUG") != "" {
		for _, d := range diffs {
			fmt.Printf("DEBUG C05 diff %s/%x:\n   Q=%x\n   P=%x\n", d.Store, d.Key, d.A, d.B)
		}
	}
	if len(diffs) > 0 {
		var stores []string
		seen := map[string]bool{}
		for _, d := range diffs {
			if !seen[d.Store] {
				seen[d.Store] = true
				stores = append(stores, d.Store)
			}
		}
		desc := fmt.Sprintf("frame %d (%s) failed but %d store entries differ from the run in which the frame did nothing (stores %v); first: %s; precompile tx methods in the failed subtree %v, queries %v", c.F, c.How, len(diffs), stores, trunc(diffs[0].String()), txMethods, queryMethods)
		var keys []string
		if c.F == 0 {
			// the transaction as a whole failed: nothing but fee and nonce may change, whatever ran inside
			kind := "call"
			if c.Prog.Create {
				kind = "create"
			}
			if msg := fail("failed-tx-leak:"+kind, desc); msg != "" {
				return msg
			}
			return ""
		}
		for _, m := range txMethods {
			keys = append(keys, "frame-revert-leak:"+m)
		}
		if len(keys) == 0 {
			for _, m := range queryMethods {
				keys = append(keys, "frame-revert-leak:flush-by-query:"+m)
			}
		}
		if len(keys) == 0 {
			keys = []string{"frame-revert-leak:pure-evm"}
		}
		anyKnown := false
		for _, k := range keys {
			if st.IsKnown(k) {
				anyKnown = true
			}
		}
		done := map[string]bool{}
		for _, k := range keys {
			if done[k] || (anyKnown && !st.IsKnown(k)) {
				continue
			}
			done[k] = true
			if msg := fail(k, desc); msg != "" {
				return msg
			}
			st.Class("known:" + k)
		}
		return ""
	}
	if len(txMethods) > 0 {
		st.Class("reverted-subtree-with-precompile-tx")
	}
	if c.F == 0 && len(txMethods) > 0 {
		st.Class("whole-tx-failed-after-precompile-tx")
	}
	if c.Prog.Create {
		st.Class(fmt.Sprintf("constructor:failed-frame-is-ctor=%v", c.F == 0))
	}
	if len(pureKinds) >= 2 && c.F > 0 {
		st.Class("reverted-subtree-pure-evm-2-kinds")
	}
	if len(txMethods) > 0 || (len(pureKinds) >= 2 && c.F > 0) {
		st.NonTrivial(map[string]any{"f": c.F, "how": c.How, "tx": strings.Join(txMethods, ","), "pure": fmt.Sprint(pureKinds), "depth": len(sub)})
	}
	return ""
}

func bankBalanceKey(addr []byte) string {
	return string(append(banktypes.CreateAccountBalancesPrefix(addr), []byte(chain.Denom)...))
}

func adjusted(a, b []byte, delta *big.Int) bool {
	// bank balances are stored as the decimal string of the amount (sdk.Int marshal)
	x, ok1 := new(big.Int).SetString(string(a), 10)
	y, ok2 := new(big.Int).SetString(string(b), 10)
	if !ok1 || !ok2 {
		return false
	}
	return new(big.Int).Add(x, delta).Cmp(y) == 0
}

func init() {
	replayers["TestC05_FrameRevert"] = func(st *ev.Stats, raw json.RawMessage) string {
		var c C05Case
		must(json.Unmarshal(raw, &c))
		return runC05(st, c)
	}
}

func TestC05_FrameRevert(t *testing.T) {
	st := ev.New("C05", "TestC05_FrameRevert", "generated call tree (1-4 frames, CALL/DELEGATECALL/CALLCODE, precompile tx calls and queries, stores, logs, value forwarding) with one chosen frame failing by REVERT / INVALID / out of gas, compared store-by-store with the same program whose failing frame does nothing; non-trivial = the failed subtree contains a precompile tx call, or >= 2 kinds of pure EVM effects below a catching parent")
	runCorpus(t, st)
	runRapid(t, st, 300, 25000, func(rt *rapid.T) {
		if msg := runC05(st, genC05(rt)); msg != "" {
			rt.Fatalf("%s", msg)
		}
	})
}
