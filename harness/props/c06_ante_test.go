package props

// C06, the ante handler called directly with in-memory transactions: the type URL of an extension option can then be
// any string, also ones the decoder would never produce (a host prefix, a missing or doubled slash, other case).
// Only the three exact URLs select a route; anything else is an unknown extension option and must be refused.

import (
	"encoding/json"
	"fmt"
	"math/big"
	"strings"
	"testing"

	tmproto "github.com/cometbft/cometbft/proto/tendermint/types"
	codectypes "github.com/cosmos/cosmos-sdk/codec/types"
	sdk "github.com/cosmos/cosmos-sdk/types"
	banktypes "github.com/cosmos/cosmos-sdk/x/bank/types"
	"pgregory.net/rapid"

	"github.com/haqq-network/haqq/app/ante"
	ethante "github.com/haqq-network/haqq/app/ante/evm"
	haqqtypes "github.com/haqq-network/haqq/types"
	evmtypes "github.com/haqq-network/haqq/x/evm/types"

	"verif/chain"
	"verif/ev"
	"verif/txb"
)

type C06AnteCase struct {
	Base    string `json:"base"`    // eth | dyn | web3: the known option whose URL is varied
	Variant string `json:"variant"` // how the URL is written
	Msg     string `json:"msg"`     // eth | send
}

var c06URLVariants = []string{"exact", "host-prefix", "short-prefix", "no-leading-slash", "double-slash", "trailing-slash", "upper", "suffix", "path-prefix"}

func c06VariantURL(url, v string) string {
	switch v {
	case "exact":
		return url
	case "host-prefix":
		return "type.googleapis.com" + url
	case "short-prefix":
		return "x" + url
	case "no-leading-slash":
		return url[1:]
	case "double-slash":
		return "/" + url
	case "trailing-slash":
		return url + "/"
	case "upper":
		return strings.ToUpper(url)
	case "suffix":
		return url + "V2"
	default:
		return "/a/b" + url
	}
}

func genC06Ante(t *rapid.T) C06AnteCase {
	return C06AnteCase{Base: rapid.SampledFrom([]string{"eth", "eth", "dyn", "web3"}).Draw(t, "base"), Variant: rapid.SampledFrom(c06URLVariants).Draw(t, "variant"),
		Msg: rapid.SampledFrom([]string{"eth", "eth", "send"}).Draw(t, "msg")}
}

func c06AnteHandler(n *chain.Node) sdk.AnteHandler {
	app := n.App
	options := ante.HandlerOptions{
		Cdc: app.AppCodec(), AccountKeeper: app.AccountKeeper, BankKeeper: app.BankKeeper, ExtensionOptionChecker: haqqtypes.HasDynamicFeeExtensionOption,
		EvmKeeper: app.EvmKeeper, StakingKeeper: app.StakingKeeper, FeegrantKeeper: app.FeeGrantKeeper, DistributionKeeper: app.DistrKeeper, IBCKeeper: app.IBCKeeper,
		FeeMarketKeeper: app.FeeMarketKeeper, SignModeHandler: txb.TxConfig().SignModeHandler(), SigGasConsumer: ante.SigVerificationGasConsumer,
		TxFeeChecker: ethante.NewDynamicFeeChecker(app.EvmKeeper),
	}
	must(options.Validate())
	return ante.NewAnteHandler(options)
}

func runC06Ante(st *ev.Stats, c C06AnteCase) string {
	st.Eval()
	fail := func(key, what string) string { return st.Discrepancy(key, what, c) }
	n := c06Base().Fork()
	n.BeginBlock(chain.BlockIn{})
	handler := c06AnteHandler(n)
	a, b := chain.Acct("c06a0"), chain.Acct("c06a1")
	num, seq := txb.AccInfo(n.Ctx(), n.App, a.Addr)
	opt := c06Opt(c.Base)
	url := c06VariantURL(opt.TypeUrl, c.Variant)
	any := &codectypes.Any{TypeUrl: url, Value: opt.Value}
	var tx sdk.Tx
	if c.Msg == "eth" {
		to := b.Hex
		etx := txb.SignEth(a, txb.Eth{Type: 0, ChainID: big.NewInt(11235), Nonce: seq, To: &to, Value: big.NewInt(5), Gas: 21000, GasPrice: gwei10})
		msg := &evmtypes.MsgEthereumTx{}
		must(msg.FromEthereumTx(etx))
		cb := txb.Cosmos{Msgs: []sdk.Msg{msg}, Gas: 21000, Fee: coinsOfGas(21000, gwei10), ExtOpts: []*codectypes.Any{any}}
		tx = cb.Builder().GetTx()
	} else {
		cb := txb.Cosmos{Msgs: []sdk.Msg{banktypes.NewMsgSend(a.Addr, b.Addr, sdk.NewCoins(islm(1)))}, Gas: 300000, Fee: coinsOfGas(300000, gwei10), ChainID: chain.ChainID, AccNum: num, Seq: seq,
			ExtOpts: []*codectypes.Any{any}}
		tx = txb.SignCosmos(a, cb).GetTx()
	}
	var err error
	func() {
		defer func() {
			if r := recover(); r != nil {
				err = fmt.Errorf("panic: %v", r)
			}
		}()
		cctx, _ := n.Ctx().CacheContext()
		cctx = cctx.WithConsensusParams(&tmproto.ConsensusParams{Block: &tmproto.BlockParams{MaxGas: -1, MaxBytes: 200000}})
		_, err = handler(cctx, tx, false)
	}()
	st.Class(fmt.Sprintf("%s:%s:%s:accepted=%v", c.Base, c.Variant, c.Msg, err == nil))
	if c.Variant != "exact" {
		if err == nil {
			return fail("bypass:unknown-extension-option:"+c.Variant, fmt.Sprintf("an in-memory tx whose only extension option has the type URL %q passed the ante handler", url))
		}
		st.NonTrivial(c)
		return ""
	}
	// positive control: the exact URL of the Ethereum option with a valid Ethereum message is accepted
	if c.Base == "eth" && c.Msg == "eth" && err != nil {
		return fail("benign-rejected:eth-direct", fmt.Sprintf("a plain Ethereum-route tx was refused by the ante handler: %v", err))
	}
	return ""
}

func init() {
	replayers["TestC06_AnteDirect"] = func(st *ev.Stats, raw json.RawMessage) string {
		var c C06AnteCase
		must(json.Unmarshal(raw, &c))
		return runC06Ante(st, c)
	}
}

func TestC06_AnteDirect(t *testing.T) {
	st := ev.New("C06", "TestC06_AnteDirect", "in-memory tx (valid Ethereum message or signed bank send) whose single extension option carries one of the three known option values under a varied type URL (exact, host prefix, other prefixes, missing/doubled/trailing slash, other case, suffix), handed to an ante handler wired like the application's; non-trivial = a URL other than the exact one")
	runCorpus(t, st)
	runRapid(t, st, 150, 3000, func(rt *rapid.T) {
		if msg := runC06Ante(st, genC06Ante(rt)); msg != "" {
			rt.Fatalf("%s", msg)
		}
	})
}
