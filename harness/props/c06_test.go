package props

// C06 — Ethereum messages and blocked types cannot bypass their route.
//
// Generator: transactions whose message list is a forest of MsgExec / MsgGrant wrappers (depth <= 9, width <= 3)
// around leaves {bank send, signed MsgEthereumTx, sdk MsgCreateVestingAccount, grants of blocked / allowed types},
// with extension-option lists drawn from {none, EthereumTx, Web3Tx, DynamicFeeTx, unregistered URL, a registered
// non-option type}. Small shapes are enumerated exhaustively, larger ones drawn.
// Oracle: an independent recursive predicate mustReject(tx) written from the property text. mustReject => DeliverTx
// code != 0, and a block made only of such txs commits to the same app hash as an empty block (no trace).
// Benign small trees must be accepted (positive control).

import (
	"bytes"
	"encoding/json"
	"fmt"
	"math/big"
	"sync"
	"testing"
	"time"

	sdkmath "cosmossdk.io/math"
	codectypes "github.com/cosmos/cosmos-sdk/codec/types"
	sdk "github.com/cosmos/cosmos-sdk/types"
	"github.com/cosmos/cosmos-sdk/types/tx/signing"
	sdkvesting "github.com/cosmos/cosmos-sdk/x/auth/vesting/types"
	"github.com/cosmos/cosmos-sdk/x/authz"
	banktypes "github.com/cosmos/cosmos-sdk/x/bank/types"
	stakingtypes "github.com/cosmos/cosmos-sdk/x/staking/types"
	"pgregory.net/rapid"

	"verif/chain"
	"verif/ev"
	"verif/txb"

	haqqtypes "github.com/haqq-network/haqq/types"
	evmtypes "github.com/haqq-network/haqq/x/evm/types"
)

// C06Node is a message tree node.
type C06Node struct {
	K    string    `json:"k"` // exec | send | ethtx | sdkvest | grant-eth | grant-sdkvest | grant-send | grant-stake | grant-exec
	Kids []C06Node `json:"kids,omitempty"`
}

type C06Tx struct {
	Msgs    []C06Node `json:"msgs"`
	Ext     []string  `json:"ext,omitempty"`      // critical extension options: eth | web3 | dyn | unknown | notopt
	NonCrit []string  `json:"non_crit,omitempty"` // non-critical extension options (same alphabet)
}

type C06Case struct {
	Txs []C06Tx `json:"txs"`
}

var c06Leaves = []string{"send", "ethtx", "sdkvest", "grant-eth", "grant-sdkvest", "grant-send", "grant-stake", "grant-exec"}

func c06Blocked(k string) bool { return k == "ethtx" || k == "sdkvest" }

// ---- the reference predicate (from the property text) ---------------------------------------------------------

func c06HasEthAnywhere(ns []C06Node) bool {
	for _, n := range ns {
		if n.K == "ethtx" || c06HasEthAnywhere(n.Kids) {
			return true
		}
	}
	return false
}

// blocked types inside an exec at any depth, or a grant of a blocked type anywhere
func c06AuthzViolation(ns []C06Node, insideExec bool) bool {
	for _, n := range ns {
		switch {
		case n.K == "exec":
			if c06AuthzViolation(n.Kids, true) {
				return true
			}
		case n.K == "grant-eth" || n.K == "grant-sdkvest":
			return true
		case c06Blocked(n.K) && insideExec:
			return true
		}
	}
	return false
}

func c06AllTopLevelEth(ns []C06Node) bool {
	for _, n := range ns {
		if n.K != "ethtx" {
			return false
		}
	}
	return len(ns) > 0
}

func c06Route(t C06Tx) string {
	if len(t.Ext) == 0 {
		return "cosmos"
	}
	switch t.Ext[0] {
	case "eth":
		return "eth"
	case "web3":
		return "web3"
	case "dyn":
		return "cosmos"
	}
	return "none" // unknown first option: no route
}

func c06MustReject(t C06Tx) (bool, string) {
	for _, e := range append(append([]string{}, t.Ext...), t.NonCrit...) {
		if e == "unknown" || e == "notopt" {
			return true, "unknown-extension-option"
		}
	}
	route := c06Route(t)
	if route == "eth" {
		if !c06AllTopLevelEth(t.Msgs) {
			return true, "non-eth-message-on-eth-route"
		}
		// the Ethereum route understands exactly one option, its own
		if len(t.Ext) != 1 {
			return true, "critical-option-not-understood-by-route"
		}
		return false, ""
	}
	if c06HasEthAnywhere(t.Msgs) {
		return true, "eth-message-on-cosmos-route"
	}
	if c06AuthzViolation(t.Msgs, false) {
		return true, "blocked-type-via-authz"
	}
	// a critical option the Cosmos route does not know (it only knows the dynamic-fee option)
	if route == "cosmos" {
		for _, e := range t.Ext {
			if e != "dyn" {
				return true, "critical-option-not-understood-by-route"
			}
		}
	}
	// the EIP-712 route understands exactly one option, its own
	if route == "web3" && len(t.Ext) != 1 {
		return true, "critical-option-not-understood-by-route"
	}
	return false, ""
}

// ---- building ----------------------------------------------------------------------------------------------

var (
	c06Once      sync.Once
	c06EmptyHash []byte
	c06EmptyDump map[string]map[string][]byte
)

func c06Base() *chain.Node {
	return baseChain("c06", func() *chain.Node {
		n := chain.NewNode(chain.Opts{Accounts: chain.Accts("c06a", 3), NumVals: 1})
		n.BeginBlock(chain.BlockIn{})
		// give the signer a pubkey and a non-zero sequence
		a := chain.Acct("c06a0")
		num, seq := txb.AccInfo(n.Ctx(), n.App, a.Addr)
		bz := txb.CosmosTx(a, txb.Cosmos{Msgs: []sdk.Msg{banktypes.NewMsgSend(a.Addr, chain.Acct("c06a1").Addr, sdk.NewCoins(islm(1)))}, Gas: defaultGas, Fee: coinsOfGas(defaultGas, gwei10), ChainID: chain.ChainID, AccNum: num, Seq: seq})
		if r := n.DeliverTx(bz); r.Code != 0 {
			panic(r.Log)
		}
		n.EndBlockCommit()
		n.BeginBlock(chain.BlockIn{})
		return n
	})
}

func c06Empty() []byte {
	c06Once.Do(func() {
		n := c06Base().Fork()
		n.BeginBlock(chain.BlockIn{})
		_, c06EmptyHash = n.EndBlockCommit()
		c06EmptyDump = n.DumpStores()
	})
	return c06EmptyHash
}

type c06Builder struct {
	a, b     chain.Account
	ethNonce uint64
	incNonce bool // consecutive nonces for the Ethereum messages of one tx (a well-formed Ethereum-route tx)
	counter  int64
}

func (bl *c06Builder) msg(n C06Node) sdk.Msg {
	bl.counter++
	a, b := bl.a, bl.b
	exp := chain.GenesisTime.Add(365 * 24 * time.Hour)
	grant := func(auth authz.Authorization) sdk.Msg {
		m, err := authz.NewMsgGrant(a.Addr, b.Addr, auth, &exp)
		must(err)
		return m
	}
	switch n.K {
	case "exec":
		var inner []sdk.Msg
		for _, k := range n.Kids {
			inner = append(inner, bl.msg(k))
		}
		m := authz.NewMsgExec(a.Addr, inner)
		return &m
	case "send":
		return banktypes.NewMsgSend(a.Addr, b.Addr, sdk.NewCoins(sdk.NewCoin(chain.Denom, sdkmath.NewInt(bl.counter))))
	case "ethtx":
		to := b.Hex
		tx := txb.SignEth(a, txb.Eth{Type: 0, ChainID: big.NewInt(11235), Nonce: bl.ethNonce, To: &to, Value: big.NewInt(1000 + bl.counter), Gas: 21000, GasPrice: gwei10})
		if bl.incNonce {
			bl.ethNonce++
		}
		m := &evmtypes.MsgEthereumTx{}
		must(m.FromEthereumTx(tx))
		return m
	case "sdkvest":
		return sdkvesting.NewMsgCreateVestingAccount(a.Addr, chain.Acct("c06fresh").Addr, sdk.NewCoins(islm(1)), exp.Unix(), false)
	case "grant-eth":
		return grant(authz.NewGenericAuthorization(sdk.MsgTypeURL(&evmtypes.MsgEthereumTx{})))
	case "grant-sdkvest":
		return grant(authz.NewGenericAuthorization(sdk.MsgTypeURL(&sdkvesting.MsgCreateVestingAccount{})))
	case "grant-send":
		return grant(banktypes.NewSendAuthorization(sdk.NewCoins(islm(5)), nil))
	case "grant-stake":
		sa, err := stakingtypes.NewStakeAuthorization([]sdk.ValAddress{sdk.ValAddress(chain.ValOp(0).Addr)}, nil, stakingtypes.AuthorizationType_AUTHORIZATION_TYPE_DELEGATE, nil)
		must(err)
		return grant(sa)
	case "grant-exec":
		return grant(authz.NewGenericAuthorization(sdk.MsgTypeURL(&authz.MsgExec{})))
	}
	panic("unknown node kind " + n.K)
}

func c06Opt(e string) *codectypes.Any {
	switch e {
	case "eth":
		return txb.MustAny(&evmtypes.ExtensionOptionsEthereumTx{})
	case "dyn":
		return txb.MustAny(&haqqtypes.ExtensionOptionDynamicFeeTx{MaxPriorityPrice: sdkmath.NewInt(1_000_000_000)})
	case "web3":
		return txb.MustAny(&haqqtypes.ExtensionOptionsWeb3Tx{FeePayer: chain.Acct("c06a0").Addr.String(), TypedDataChainID: 11235, FeePayerSig: bytes.Repeat([]byte{1}, 65)})
	case "unknown":
		return &codectypes.Any{TypeUrl: "/verif.unknown.v1.ExtensionOptionMystery", Value: []byte{0x08, 0x01}}
	default: // a registered proto type that is not an extension option
		return txb.MustAny(banktypes.NewMsgSend(chain.Acct("c06a0").Addr, chain.Acct("c06a1").Addr, sdk.NewCoins(islm(1))))
	}
}

// c06Encode builds and signs the transaction as well as its route allows. ok=false: not encodable at all.
func c06Encode(n *chain.Node, t C06Tx) (bz []byte, signedProperly bool, err error) {
	defer func() {
		if r := recover(); r != nil {
			err = fmt.Errorf("panic while building: %v", r)
		}
	}()
	a, b := chain.Acct("c06a0"), chain.Acct("c06a1")
	num, seq := txb.AccInfo(n.Ctx(), n.App, a.Addr)
	bl := &c06Builder{a: a, b: b, ethNonce: seq, incNonce: c06Route(t) == "eth"}
	var msgs []sdk.Msg
	for _, m := range t.Msgs {
		msgs = append(msgs, bl.msg(m))
	}
	route := c06Route(t)
	gas := uint64(600000)
	var ext, non []*codectypes.Any
	for _, e := range t.Ext {
		ext = append(ext, c06Opt(e))
	}
	for _, e := range t.NonCrit {
		non = append(non, c06Opt(e))
	}
	c := txb.Cosmos{Msgs: msgs, Gas: gas, Fee: coinsOfGas(gas, gwei10), ChainID: chain.ChainID, AccNum: num, Seq: seq, ExtOpts: ext, NonCritOpts: non}
	switch route {
	case "eth":
		// the eth envelope: no signatures, fee = sum of the eth fees and gas = sum of the gas limits when all messages are
		// eth messages (what the JSON-RPC server builds)
		if c06AllTopLevelEth(t.Msgs) {
			c.Gas = 21000 * uint64(len(msgs))
			c.Fee = coinsOfGas(c.Gas, gwei10)
		}
		bld := c.Builder()
		bz, err = txb.TxConfig().TxEncoder()(bld.GetTx())
		return bz, true, err
	case "web3":
		{
			// sign as a single-option EIP-712 tx; further options are appended behind the signed one (extension options
			// are not covered by the EIP-712 sign bytes, so anybody can append them)
			cc := c
			cc.ExtOpts = append([]*codectypes.Any{}, ext[1:]...)
			cc.Mode = signing.SignMode_SIGN_MODE_LEGACY_AMINO_JSON
			if bld, e := txb.EIP712(a, cc, 11235, true); e == nil {
				bz, err = txb.TxConfig().TxEncoder()(bld.GetTx())
				return bz, true, err
			}
		}
		// not expressible as legacy typed data (or several options): keep the placeholder signature
		bld := c.Builder()
		must(bld.SetSignatures(signing.SignatureV2{PubKey: a.Priv.PubKey(), Data: &signing.SingleSignatureData{SignMode: signing.SignMode_SIGN_MODE_LEGACY_AMINO_JSON}, Sequence: seq}))
		bz, err = txb.TxConfig().TxEncoder()(bld.GetTx())
		return bz, false, err
	default:
		bld := txb.SignCosmos(a, c)
		bz, err = txb.TxConfig().TxEncoder()(bld.GetTx())
		return bz, true, err
	}
}

// ---- generation --------------------------------------------------------------------------------------------

func genC06Node(t *rapid.T, depth, maxDepth int, forceLeaf string) C06Node {
	if depth >= maxDepth {
		k := forceLeaf
		if k == "" {
			k = rapid.SampledFrom(c06Leaves).Draw(t, "leaf")
		}
		return C06Node{K: k}
	}
	n := C06Node{K: "exec"}
	w := rapid.IntRange(1, 3).Draw(t, "width")
	pos := rapid.IntRange(0, w-1).Draw(t, "pos")
	for i := 0; i < w; i++ {
		if i == pos {
			n.Kids = append(n.Kids, genC06Node(t, depth+1, maxDepth, forceLeaf))
		} else {
			// siblings are benign leaves or shallow execs
			if rapid.IntRange(0, 3).Draw(t, "sib") == 0 && depth+2 <= maxDepth {
				n.Kids = append(n.Kids, C06Node{K: "exec", Kids: []C06Node{{K: "send"}}})
			} else {
				n.Kids = append(n.Kids, C06Node{K: rapid.SampledFrom([]string{"send", "send", "grant-send", "grant-stake"}).Draw(t, "sibleaf")})
			}
		}
	}
	return n
}

func genC06Tx(t *rapid.T) C06Tx {
	tx := C06Tx{}
	if rapid.IntRange(0, 7).Draw(t, "eth-route") == 0 {
		// a well-formed Ethereum-route tx (1-3 Ethereum messages), possibly carrying further options behind its own
		tx.Ext = []string{"eth"}
		for i, n := 0, rapid.IntRange(0, 2).Draw(t, "eth-extra"); i < n; i++ {
			tx.Ext = append(tx.Ext, rapid.SampledFrom([]string{"eth", "web3", "dyn"}).Draw(t, "eth-extra-opt"))
		}
		if rapid.IntRange(0, 4).Draw(t, "eth-noncrit") == 0 {
			tx.NonCrit = []string{rapid.SampledFrom([]string{"web3", "dyn", "unknown"}).Draw(t, "eth-noncrit-v")}
		}
		for i, n := 0, rapid.IntRange(1, 3).Draw(t, "eth-nmsgs"); i < n; i++ {
			tx.Msgs = append(tx.Msgs, C06Node{K: "ethtx"})
		}
		return tx
	}
	switch rapid.IntRange(0, 9).Draw(t, "ext-kind") {
	case 0, 1, 2, 3:
	case 4:
		tx.Ext = []string{"dyn"}
	case 5:
		tx.Ext = []string{"web3"}
	case 6:
		tx.Ext = []string{"eth"}
	default:
		n := rapid.IntRange(1, 3).Draw(t, "next")
		for i := 0; i < n; i++ {
			tx.Ext = append(tx.Ext, rapid.SampledFrom([]string{"eth", "web3", "dyn", "dyn", "unknown", "notopt"}).Draw(t, "ext"))
		}
	}
	if rapid.IntRange(0, 5).Draw(t, "noncrit") == 0 {
		tx.NonCrit = []string{rapid.SampledFrom([]string{"eth", "web3", "dyn", "unknown", "notopt"}).Draw(t, "noncrit-v")}
	}
	nm := rapid.IntRange(1, 3).Draw(t, "nmsgs")
	bad := rapid.IntRange(0, nm-1).Draw(t, "badpos")
	for i := 0; i < nm; i++ {
		if i == bad {
			leaf := ""
			if rapid.IntRange(0, 2).Draw(t, "blockedleaf") > 0 {
				leaf = rapid.SampledFrom([]string{"ethtx", "sdkvest", "grant-eth", "grant-sdkvest"}).Draw(t, "bl")
			}
			tx.Msgs = append(tx.Msgs, genC06Node(t, 0, rapid.SampledFrom([]int{0, 1, 1, 2, 2, 3, 4, 5, 6, 7, 8, 9}).Draw(t, "depth"), leaf))
		} else {
			tx.Msgs = append(tx.Msgs, genC06Node(t, 0, rapid.IntRange(0, 1).Draw(t, "d2"), "send"))
		}
	}
	return tx
}

func genC06(t *rapid.T) C06Case {
	c := C06Case{}
	n := rapid.IntRange(1, 6).Draw(t, "ntxs")
	for i := 0; i < n; i++ {
		c.Txs = append(c.Txs, genC06Tx(t))
	}
	return c
}

func c06Has(ns []C06Node, k string) bool {
	for _, n := range ns {
		if n.K == k || c06Has(n.Kids, k) {
			return true
		}
	}
	return false
}

func c06Depth(ns []C06Node) int {
	d := 0
	for _, n := range ns {
		if n.K == "exec" {
			if x := 1 + c06Depth(n.Kids); x > d {
				d = x
			}
		}
	}
	return d
}

func c06CountExec(ns []C06Node) int {
	c := 0
	for _, n := range ns {
		if n.K == "exec" {
			c += 1 + c06CountExec(n.Kids)
		}
	}
	return c
}

func c06BlockedNotFirst(ns []C06Node, first bool) bool {
	for i, n := range ns {
		if (c06Blocked(n.K) || n.K == "grant-eth" || n.K == "grant-sdkvest") && (i > 0 || !first) {
			return true
		}
		if n.K == "exec" && c06BlockedNotFirst(n.Kids, first && i == 0) {
			return true
		}
	}
	return false
}

func runC06(st *ev.Stats, c C06Case) string {
	st.Eval()
	fail := func(key, what string) string { return st.Discrepancy(key, what, c) }
	n := c06Base().Fork()
	n.BeginBlock(chain.BlockIn{})
	allBad := true
	for i, t := range c.Txs {
		reject, why := c06MustReject(t)
		bz, signed, err := c06Encode(n, t)
		route := c06Route(t)
		if reject {
			st.Class("must-reject:" + why + ":" + route)
		}
		if err != nil {
			// cannot even be encoded/built by the client libraries: rejected by construction
			st.Class("unencodable")
			continue
		}
		res := n.DeliverTx(bz)
		if reject {
			if res.Code == 0 {
				return fail("bypass:"+why+":"+route, fmt.Sprintf("tx %d %+v was accepted (must be rejected: %s)", i, t, why))
			}
			if !signed {
				st.Class("placeholder-signature")
			}
			if (c06Depth(t.Msgs) >= 2 && c06BlockedNotFirst(t.Msgs, true)) || len(t.Ext)+len(t.NonCrit) >= 2 {
				st.NonTrivial(t)
			}
			continue
		}
		allBad = false
		// positive control: small benign trees on the plain / dynamic-fee Cosmos route must be accepted
		if route == "cosmos" && signed && c06CountExec(t.Msgs) <= 5 && len(t.NonCrit) == 0 && !c06Has(t.Msgs, "sdkvest") {
			if res.Code != 0 {
				return fail("benign-rejected:"+route, fmt.Sprintf("tx %d %+v is benign but was rejected: code %d %s", i, t, res.Code, trunc(res.Log)))
			}
			st.Class("benign-accepted")
		}
		// positive control of the Ethereum route: its own option alone, only Ethereum messages
		if route == "eth" && len(t.NonCrit) == 0 {
			if res.Code != 0 {
				return fail("benign-rejected:"+route, fmt.Sprintf("tx %d %+v is a plain Ethereum-route tx but was rejected: code %d %s", i, t, res.Code, trunc(res.Log)))
			}
			st.Class("benign-accepted:eth")
		}
	}
	if allBad {
		_, h := n.EndBlockCommit()
		if !bytes.Equal(h, c06Empty()) {
			// The only state a refused tx may legitimately touch is the fee market's block-gas figure (refused txs still
			// count against the block gas meter by SDK design); everything else must be identical to the empty block.
			var diffs []chain.Diff
			for _, d := range chain.DiffStores(c06EmptyDump, n.DumpStores()) {
				if d.Store == "feemarket" && len(d.Key) == 1 && d.Key[0] == 0x01 {
					st.Class("block-gas-figure-differs")
					continue
				}
				diffs = append(diffs, d)
			}
			if len(diffs) > 0 {
				return fail("rejected-tx-left-trace", fmt.Sprintf("a block containing only rejected transactions differs from the empty block in: %v", diffs))
			}
		}
		st.Class("no-trace-checked")
	}
	return ""
}

// TestC06_SmallShapes enumerates: chains of 0..8 exec wrappers x every leaf x position of the wrapped leaf among up to 3
// siblings x route {plain, dynamic-fee, web3, eth}.
func c06Enumerate() []C06Tx {
	var out []C06Tx
	routes := [][]string{nil, {"dyn"}, {"web3"}, {"eth"}}
	for depth := 0; depth <= 8; depth++ {
		for _, leaf := range c06Leaves {
			for pos := 0; pos < 3; pos++ {
				for _, r := range routes {
					node := C06Node{K: leaf}
					for d := 0; d < depth; d++ {
						kids := []C06Node{}
						for i := 0; i < 3; i++ {
							if i == pos {
								kids = append(kids, node)
							} else if d == 0 || i > pos {
								kids = append(kids, C06Node{K: "send"})
							}
						}
						node = C06Node{K: "exec", Kids: kids}
					}
					msgs := []C06Node{}
					for i := 0; i <= pos; i++ {
						if i == pos {
							msgs = append(msgs, node)
						} else {
							msgs = append(msgs, C06Node{K: "send"})
						}
					}
					out = append(out, C06Tx{Msgs: msgs, Ext: r})
				}
			}
		}
	}
	// every ordered pair / triple of extension options around a plain send and around an eth message
	opts := []string{"eth", "web3", "dyn", "unknown", "notopt"}
	for _, body := range [][]C06Node{{{K: "send"}}, {{K: "ethtx"}}} {
		for _, a := range opts {
			out = append(out, C06Tx{Msgs: body, Ext: []string{a}}, C06Tx{Msgs: body, NonCrit: []string{a}})
			for _, b := range opts {
				out = append(out, C06Tx{Msgs: body, Ext: []string{a, b}}, C06Tx{Msgs: body, Ext: []string{a}, NonCrit: []string{b}})
			}
		}
	}
	return out
}

func init() {
	replayers["TestC06_Trees"] = func(st *ev.Stats, raw json.RawMessage) string {
		var c C06Case
		must(json.Unmarshal(raw, &c))
		return runC06(st, c)
	}
	replayers["TestC06_SmallShapes"] = replayers["TestC06_Trees"]
}

func TestC06_SmallShapes(t *testing.T) {
	st := ev.New("C06", "TestC06_SmallShapes", "exhaustive enumeration: 0..8 exec wrappers x 8 leaf kinds x 3 sibling positions x 4 routes, plus all extension-option lists of length <= 2 (critical and non-critical) around a send and around an eth message; non-trivial = must-reject tx with depth >= 2 and the blocked item not in first position, or >= 2 extension options")
	defer st.Flush()
	i, shards := ev.Shard()
	all := c06Enumerate()
	for k, tx := range all {
		if k%shards != i {
			continue
		}
		if msg := runC06(st, C06Case{Txs: []C06Tx{tx}}); msg != "" {
			t.Fatalf("%s", msg)
		}
	}
	st.Exhaustive = true
}

func TestC06_Trees(t *testing.T) {
	st := ev.New("C06", "TestC06_Trees", "blocks of 1-6 generated txs: message forests of exec/grant wrappers (depth <= 9, width <= 3, blocked leaf at a random position) x extension-option lists; non-trivial as in SmallShapes")
	runCorpus(t, st)
	runRapid(t, st, 300, 20000, func(rt *rapid.T) {
		if msg := runC06(st, genC06(rt)); msg != "" {
			rt.Fatalf("%s", msg)
		}
	})
}
