package props

// C07, multi-message Ethereum transactions: a Cosmos envelope with 2-3 Ethereum transfers of one sender, each with its
// own type and price placed around the thresholds. If the bundle is accepted, every message must individually satisfy
// the floor (fee >= gasLimit x min gas price; fee cap >= base fee) and the sender pays exactly the sum of
// gasUsed_i x effectivePrice_i plus the values; if it is rejected nothing changes.

import (
	"encoding/json"
	"fmt"
	"math/big"
	"testing"

	sdkmath "cosmossdk.io/math"
	sdk "github.com/cosmos/cosmos-sdk/types"
	authtypes "github.com/cosmos/cosmos-sdk/x/auth/types"
	ethtypes "github.com/ethereum/go-ethereum/core/types"
	"pgregory.net/rapid"

	"verif/chain"
	"verif/ev"
	"verif/txb"

	feemarkettypes "github.com/haqq-network/haqq/x/feemarket/types"
)

type C07BMsg struct {
	Type     int    `json:"type"`      // 0 legacy, 1 access list, 2 dynamic fee
	PriceRef string `json:"price_ref"` // floor | base | max | zero
	PriceOff int64  `json:"price_off"`
	TipFull  bool   `json:"tip_full"`
}

type C07BCase struct {
	MinGP     string    `json:"min_gas_price"`
	BaseFee   string    `json:"base_fee"`
	NoBaseFee bool      `json:"no_base_fee"`
	Msgs      []C07BMsg `json:"msgs"`
}

func genC07B(t *rapid.T) C07BCase {
	c := C07BCase{}
	c.MinGP = rapid.SampledFrom([]string{"0", "1", "1000000000", "10000000000", "5000000000.5"}).Draw(t, "mingp")
	c.BaseFee = rapid.SampledFrom([]string{"1000000000", "7", "875000000", "30000000000"}).Draw(t, "basefee")
	c.NoBaseFee = rapid.IntRange(0, 2).Draw(t, "nobasefee") == 0
	n := rapid.IntRange(2, 3).Draw(t, "nmsgs")
	for i := 0; i < n; i++ {
		c.Msgs = append(c.Msgs, C07BMsg{Type: rapid.IntRange(0, 2).Draw(t, "type"), PriceRef: rapid.SampledFrom([]string{"floor", "base", "max", "max", "max", "zero"}).Draw(t, "ref"),
			PriceOff: rapid.SampledFrom([]int64{-1, 0, 0, 0, 1, 1000000000}).Draw(t, "off"), TipFull: rapid.Bool().Draw(t, "tipfull")})
	}
	return c
}

func runC07B(st *ev.Stats, c C07BCase) string {
	st.Eval()
	fail := func(key, what string) string { return st.Discrepancy(key, what, c) }
	n := c07Base().Fork()
	n.BeginBlock(chain.BlockIn{})
	app := n.App
	sender, recv := chain.Acct("c07s0"), chain.Acct("c07recv")
	feeColl := authtypes.NewModuleAddress(authtypes.FeeCollectorName)
	baseFee := bigOf(c.BaseFee)
	fp := feemarkettypes.DefaultParams()
	fp.NoBaseFee = c.NoBaseFee
	fp.BaseFee = sdkmath.NewIntFromBigInt(baseFee)
	fp.MinGasPrice = sdk.MustNewDecFromStr(c.MinGP)
	fp.MinGasMultiplier = sdk.MustNewDecFromStr("0.5")
	must(fp.Validate())
	must(app.FeeMarketKeeper.SetParams(n.Ctx(), fp))
	effBase := new(big.Int).Set(baseFee)
	if c.NoBaseFee {
		effBase = new(big.Int)
	}
	minRaw := decRaw(c.MinGP)
	floorPrice := ceilDiv(minRaw, ten18)
	_, seq0 := txb.AccInfo(n.Ctx(), app, sender.Addr)
	var txs []*ethtypes.Transaction
	allOK := true
	expectPay := new(big.Int)
	var descs []string
	for i, m := range c.Msgs {
		var ref *big.Int
		switch m.PriceRef {
		case "floor":
			ref = new(big.Int).Set(floorPrice)
		case "base":
			ref = new(big.Int).Set(effBase)
		case "zero":
			ref = new(big.Int)
		default:
			ref = new(big.Int).Set(floorPrice)
			if effBase.Cmp(ref) > 0 {
				ref = new(big.Int).Set(effBase)
			}
		}
		price := new(big.Int).Add(ref, big.NewInt(m.PriceOff))
		if price.Sign() < 0 {
			price = new(big.Int)
		}
		tip := new(big.Int)
		if m.TipFull {
			tip = new(big.Int).Set(price)
		}
		to := recv.Hex
		value := big.NewInt(int64(1000 + i))
		txs = append(txs, txb.SignEth(sender, txb.Eth{Type: m.Type, ChainID: big.NewInt(11235), Nonce: seq0 + uint64(i), To: &to, Value: value, Gas: 21000, GasPrice: price, FeeCap: price, TipCap: tip}))
		// effective price: legacy / access-list pay the gas price; dynamic-fee pays min(cap, base + tip)
		eff := new(big.Int).Set(price)
		if m.Type == 2 {
			eff = new(big.Int).Add(effBase, tip)
			if eff.Cmp(price) > 0 {
				eff = new(big.Int).Set(price)
			}
		}
		// the floor is evaluated on what is actually paid per gas
		okFloor := new(big.Int).Mul(eff, ten18).Cmp(minRaw) >= 0
		okBase := c.NoBaseFee || price.Cmp(effBase) >= 0
		if !okFloor || !okBase {
			allOK = false
		}
		descs = append(descs, fmt.Sprintf("msg %d type %d price %s tip %s (effective %s): floor ok=%v, base fee ok=%v", i, m.Type, price, tip, eff, okFloor, okBase))
		expectPay.Add(expectPay, new(big.Int).Mul(big.NewInt(21000), eff))
		expectPay.Add(expectPay, value)
	}
	bz, err := txb.WrapEth(txs...)
	must(err)
	sb0, fc0 := n.Balance(sender.Addr), n.Balance(feeColl)
	res := n.DeliverTx(bz)
	_, seq1 := txb.AccInfo(n.Ctx(), app, sender.Addr)
	paid := new(big.Int).Sub(sb0, n.Balance(sender.Addr))
	desc := fmt.Sprintf("min gas price %s, base fee %s (disabled=%v); %v; response code %d %s; sequence %d -> %d; sender paid %s, fee collector got %s",
		c.MinGP, c.BaseFee, c.NoBaseFee, descs, res.Code, trunc(res.Log), seq0, seq1, paid, new(big.Int).Sub(n.Balance(feeColl), fc0))
	accepted := seq1 != seq0
	switch {
	case accepted && !allOK:
		return fail("floor:eth-bundle", "a bundle with a message below the floor was accepted: "+desc)
	case accepted:
		if seq1 != seq0+uint64(len(c.Msgs)) || res.Code != 0 {
			return fail("bundle-partially-applied", desc)
		}
		if paid.Cmp(expectPay) != 0 {
			return fail("payment:eth-bundle", fmt.Sprintf("expected the sender to pay %s: %s", expectPay, desc))
		}
		st.Class("bundle-accepted")
		st.NonTrivial(c)
	default:
		if paid.Sign() != 0 {
			return fail("rejected-bundle-charged", desc)
		}
		if allOK {
			return fail("valid-bundle-rejected", desc)
		}
		st.Class("bundle-rejected")
		mixed := false
		for _, d := range descs {
			if containsFold(d, "floor ok=true, base fee ok=true") {
				mixed = true
			}
		}
		if mixed {
			st.Class("bundle-rejected:some-messages-alone-would-pass")
			st.NonTrivial(c)
		}
	}
	return ""
}

func init() {
	replayers["TestC07_EthBundle"] = func(st *ev.Stats, raw json.RawMessage) string {
		var c C07BCase
		must(json.Unmarshal(raw, &c))
		return runC07B(st, c)
	}
}

func TestC07_EthBundle(t *testing.T) {
	st := ev.New("C07", "TestC07_EthBundle", "fee-market configuration x a Cosmos envelope with 2-3 Ethereum transfers of one sender, each with its own type and a price at floor / base fee / their maximum / zero, +-1; non-trivial = an accepted bundle, or a rejected bundle in which some message alone satisfies the floor")
	runCorpus(t, st)
	runRapid(t, st, 400, 20000, func(rt *rapid.T) {
		if msg := runC07B(st, genC07B(rt)); msg != "" {
			rt.Fatalf("%s", msg)
		}
	})
}
