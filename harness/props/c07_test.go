package props

// C07 — every transaction pays the fee floor; EVM gas is charged exactly.
//
// Case = fee-market configuration x transaction (route, gas, prices around the thresholds) x execution outcome
// (generated EVM program: stores, refunds, logs, value forwarding, nested calls, revert / invalid / out of gas,
// contract creation). Executed with DeliverTx on a fork.
// Oracles: (a) floor — an accepted tx is charged at least min-gas-price per unit of gas limit (Cosmos) resp. pays an
// effective price >= min gas price and has fee cap >= base fee (eth); (b) identity — sender pays exactly
// gasUsed x effectivePrice (+ value moved), the fee collector receives exactly that; (c) gasUsed =
// max(EVM gas after refunds, floor(minGasMultiplier x gasLimit)) <= gasLimit, with "EVM gas after refunds" taken from
// a vanilla go-ethereum state transition on the same pre-state (differential reference).

import (
	"encoding/json"
	"fmt"
	"math/big"
	"testing"

	sdkmath "cosmossdk.io/math"
	codectypes "github.com/cosmos/cosmos-sdk/codec/types"
	sdk "github.com/cosmos/cosmos-sdk/types"
	authtypes "github.com/cosmos/cosmos-sdk/x/auth/types"
	banktypes "github.com/cosmos/cosmos-sdk/x/bank/types"
	"github.com/ethereum/go-ethereum/common"
	ethtypes "github.com/ethereum/go-ethereum/core/types"
	ethcrypto "github.com/ethereum/go-ethereum/crypto"
	"pgregory.net/rapid"

	"verif/chain"
	"verif/ev"
	"verif/evmasm"
	"verif/refevm"
	"verif/txb"

	haqqtypes "github.com/haqq-network/haqq/types"
	"github.com/haqq-network/haqq/x/evm/statedb"
	evmtypes "github.com/haqq-network/haqq/x/evm/types"
	feemarkettypes "github.com/haqq-network/haqq/x/feemarket/types"
)

type C07Slot struct {
	Frame int    `json:"frame"`
	Key   uint64 `json:"key"`
	Val   uint64 `json:"val"`
}

type C07Case struct {
	MinGP     string `json:"min_gas_price"`
	BaseFee   string `json:"base_fee"`
	NoBaseFee bool   `json:"no_base_fee"`
	Mult      string `json:"min_gas_multiplier"`
	Route     string `json:"route"` // eth-legacy | eth-access | eth-dynamic | cosmos | cosmos-dyn
	Gas       uint64 `json:"gas"`
	PriceRef  string `json:"price_ref"` // floor | base | max | high
	PriceOff  int64  `json:"price_off"`
	TipMode   string `json:"tip_mode"` // zero | one | half | full
	FeeOff    int64  `json:"fee_off"`  // cosmos: added to the total declared fee
	// FeeAt (cosmos): "" = fee is price x gas; "floor" = fee is the floor itself, ceil(gas x min gas price), before FeeOff
	FeeAt    string         `json:"fee_at,omitempty"`
	Value    string         `json:"value"`
	Create   bool           `json:"create"`
	Prog     evmasm.Program `json:"prog"`
	Pre      []C07Slot      `json:"pre_slots"`
	NMsgs    int            `json:"n_msgs"`
	NAccess  int            `json:"n_access"`
	GasTight int64          `json:"gas_tight"` // > 0: gas limit = gas the reference EVM consumes before refunds + GasTight - 1
}

func genC07Prog(t *rapid.T) (evmasm.Program, []C07Slot) {
	nf := rapid.IntRange(0, 3).Draw(t, "nframes")
	p := evmasm.Program{}
	var pre []C07Slot
	for i := 0; i < nf; i++ {
		f := evmasm.Frame{}
		nops := rapid.IntRange(0, 6).Draw(t, "nops")
		for j := 0; j < nops; j++ {
			kinds := []string{"sstore", "sstore", "sstore-clear", "log", "burn", "send"}
			if i < nf-1 {
				kinds = append(kinds, "call", "call")
			}
			k := rapid.SampledFrom(kinds).Draw(t, "op")
			switch k {
			case "sstore":
				f.Ops = append(f.Ops, evmasm.Op{Kind: "sstore", Key: uint64(rapid.IntRange(0, 3).Draw(t, "key")), Val: uint64(rapid.IntRange(0, 2).Draw(t, "val"))})
			case "sstore-clear":
				key := uint64(rapid.IntRange(4, 7).Draw(t, "ckey"))
				pre = append(pre, C07Slot{Frame: i, Key: key, Val: 9})
				f.Ops = append(f.Ops, evmasm.Op{Kind: "sstore", Key: key, Val: 0})
			case "log":
				f.Ops = append(f.Ops, evmasm.Op{Kind: "log", Key: uint64(j)})
			case "burn":
				f.Ops = append(f.Ops, evmasm.Op{Kind: "burn", Loop: uint64(rapid.SampledFrom([]int{1, 10, 100, 1000, 5000}).Draw(t, "loop"))})
			case "send":
				f.Ops = append(f.Ops, evmasm.Op{Kind: "send", Target: chain.Acct("c07recv").Hex.Hex(), Value: rapid.SampledFrom([]string{"0", "1", "1000"}).Draw(t, "sendv")})
			case "call":
				f.Ops = append(f.Ops, evmasm.Op{Kind: "call", CallOp: rapid.SampledFrom([]string{"CALL", "CALL", "DELEGATECALL", "STATICCALL", "CALLCODE"}).Draw(t, "callop"),
					Child: rapid.IntRange(i+1, nf-1).Draw(t, "child"), Value: rapid.SampledFrom([]string{"0", "0", "1"}).Draw(t, "callv"),
					GasCap: uint64(rapid.SampledFrom([]int{0, 0, 0, 3000, 30000}).Draw(t, "gascap"))})
			}
		}
		switch rapid.IntRange(0, 9).Draw(t, "end") {
		case 0:
			f.Ops = append(f.Ops, evmasm.Op{Kind: "revert"})
		case 1:
			f.Ops = append(f.Ops, evmasm.Op{Kind: "invalid"})
		case 2:
			f.Ops = append(f.Ops, evmasm.Op{Kind: "burn", Loop: 100000000}) // runs out of gas
		}
		p.Frames = append(p.Frames, f)
	}
	return p, pre
}

func genC07(t *rapid.T) C07Case {
	c := C07Case{}
	c.MinGP = rapid.SampledFrom([]string{"0", "0", "1", "1000000000", "1000000000.5", "20000000000", "999999999.999999999999999999", "0.5", "5000000000"}).Draw(t, "mingp")
	c.BaseFee = rapid.SampledFrom([]string{"1000000000", "1000000000", "7", "875000000", "1", "30000000000", "4999999999", "5000000001"}).Draw(t, "basefee")
	c.NoBaseFee = rapid.IntRange(0, 5).Draw(t, "nobasefee") == 0
	c.Mult = rapid.SampledFrom([]string{"0.5", "0.5", "0", "1", "0.1", "0.999999999999999999", "0.333333333333333333"}).Draw(t, "mult")
	c.Route = rapid.SampledFrom([]string{"eth-legacy", "eth-access", "eth-dynamic", "eth-dynamic", "cosmos", "cosmos-dyn"}).Draw(t, "route")
	c.Gas = rapid.SampledFrom([]uint64{21000, 25000, 60000, 100000, 200000, 500000, 1000000}).Draw(t, "gas")
	if rapid.IntRange(0, 3).Draw(t, "gas-rand") == 0 {
		c.Gas = rapid.Uint64Range(21000, 400000).Draw(t, "gas-v")
	}
	c.PriceRef = rapid.SampledFrom([]string{"floor", "base", "max", "max", "high", "high"}).Draw(t, "priceref")
	c.PriceOff = rapid.SampledFrom([]int64{-2, -1, 0, 0, 1, 2, 1000}).Draw(t, "priceoff")
	c.TipMode = rapid.SampledFrom([]string{"zero", "one", "half", "full"}).Draw(t, "tip")
	c.FeeOff = rapid.SampledFrom([]int64{0, 0, -1, 1}).Draw(t, "feeoff")
	if c.Route[:3] != "eth" && rapid.IntRange(0, 2).Draw(t, "fee-at-floor") == 0 {
		// total fee exactly at / one below / one above ceil(gas x min gas price); an odd gas limit makes the product
		// fractional for the fractional prices
		c.FeeAt = "floor"
		c.Gas |= 1
	}
	c.Value = rapid.SampledFrom([]string{"0", "0", "1", "1000000000000000000"}).Draw(t, "value")
	c.NMsgs = rapid.IntRange(1, 3).Draw(t, "nmsgs")
	c.NAccess = rapid.IntRange(0, 2).Draw(t, "naccess")
	if c.Route[:3] == "eth" {
		c.Prog, c.Pre = genC07Prog(t)
		// storage-clearing refunds large enough to hit the refund cap
		if nclr := rapid.SampledFrom([]int{0, 0, 0, 2, 5, 10, 12}).Draw(t, "clears"); nclr > 0 {
			if len(c.Prog.Frames) == 0 {
				c.Prog.Frames = []evmasm.Frame{{}}
			}
			var ops []evmasm.Op
			for k := 0; k < nclr; k++ {
				key := uint64(100 + k)
				c.Pre = append(c.Pre, C07Slot{Frame: 0, Key: key, Val: 3})
				ops = append(ops, evmasm.Op{Kind: "sstore", Key: key, Val: 0})
			}
			c.Prog.Frames[0].Ops = append(ops, c.Prog.Frames[0].Ops...)
		}
		if rapid.IntRange(0, 2).Draw(t, "tight") == 0 {
			c.GasTight = 1 + rapid.SampledFrom([]int64{0, 1, 500, 3000, 10000, 20000}).Draw(t, "tight-extra")
		}
		c.Create = len(c.Prog.Frames) > 0 && rapid.IntRange(0, 5).Draw(t, "create") == 0
	} else if c.Gas < 200000 {
		c.Gas = 200000 + c.Gas
	}
	return c
}

func c07Base() *chain.Node {
	return baseChain("c07", func() *chain.Node {
		n := chain.NewNode(chain.Opts{Accounts: append(chain.Accts("c07s", 1), chain.Acct("c07recv")), NumVals: 1})
		n.BeginBlock(chain.BlockIn{})
		// the signer needs a pubkey on chain for Cosmos txs: one self-send
		a := chain.Acct("c07s0")
		num, seq := txb.AccInfo(n.Ctx(), n.App, a.Addr)
		bz := txb.CosmosTx(a, txb.Cosmos{Msgs: []sdk.Msg{banktypes.NewMsgSend(a.Addr, chain.Acct("c07recv").Addr, sdk.NewCoins(islm(1)))}, Gas: defaultGas, Fee: coinsOfGas(defaultGas, gwei10), ChainID: chain.ChainID, AccNum: num, Seq: seq})
		if r := n.DeliverTx(bz); r.Code != 0 {
			panic(r.Log)
		}
		n.EndBlockCommit()
		n.BeginBlock(chain.BlockIn{})
		return n
	})
}

func decRaw(s string) *big.Int { return sdk.MustNewDecFromStr(s).BigInt() } // value * 10^18

func ceilDiv(a, b *big.Int) *big.Int {
	q, r := new(big.Int).QuoRem(a, b, new(big.Int))
	if r.Sign() > 0 {
		q.Add(q, big.NewInt(1))
	}
	return q
}

func runC07(st *ev.Stats, c C07Case) string {
	st.Eval()
	fail := func(key, what string) string { return st.Discrepancy(key, what, c) }
	n := c07Base().Fork()
	n.BeginBlock(chain.BlockIn{})
	app := n.App
	ctx := n.Ctx()
	sender, recv := chain.Acct("c07s0"), chain.Acct("c07recv")
	feeColl := authtypes.NewModuleAddress(authtypes.FeeCollectorName)

	baseFee := bigOf(c.BaseFee)
	fp := feemarkettypes.DefaultParams()
	fp.NoBaseFee = c.NoBaseFee
	fp.BaseFee = sdkmath.NewIntFromBigInt(baseFee)
	fp.MinGasPrice = sdk.MustNewDecFromStr(c.MinGP)
	fp.MinGasMultiplier = sdk.MustNewDecFromStr(c.Mult)
	must(fp.Validate())
	must(app.FeeMarketKeeper.SetParams(ctx, fp))
	effBase := new(big.Int).Set(baseFee) // the base fee the EVM sees
	if c.NoBaseFee {
		effBase = new(big.Int)
	}
	minRaw := decRaw(c.MinGP)            // min gas price * 1e18
	floorPrice := ceilDiv(minRaw, ten18) // smallest integer price >= min gas price
	gasB := new(big.Int).SetUint64(c.Gas)
	var ref *big.Int
	switch c.PriceRef {
	case "floor":
		ref = new(big.Int).Set(floorPrice)
	case "base":
		ref = new(big.Int).Set(effBase)
	case "max":
		ref = new(big.Int).Set(floorPrice)
		if effBase.Cmp(ref) > 0 {
			ref = new(big.Int).Set(effBase)
		}
	default:
		ref = new(big.Int).Add(floorPrice, effBase)
		ref.Add(ref, big.NewInt(1_000_000_000))
	}
	price := new(big.Int).Add(ref, big.NewInt(c.PriceOff))
	if price.Sign() < 0 {
		price = new(big.Int)
	}
	tip := new(big.Int)
	switch c.TipMode {
	case "one":
		tip = big.NewInt(1)
	case "half":
		tip = new(big.Int).Quo(price, big.NewInt(2))
	case "full":
		tip = new(big.Int).Set(price)
	}
	if tip.Cmp(price) > 0 {
		tip = new(big.Int).Set(price)
	}
	value := bigOf(c.Value)

	bal := func(a sdk.AccAddress) *big.Int { return n.Balance(a) }
	_, seq0 := txb.AccInfo(n.Ctx(), app, sender.Addr)
	isEth := c.Route[:3] == "eth"

	if isEth {
		// install the program
		codes := c.Prog.Compile()
		pre := map[common.Address]refevm.Account{}
		for i, code := range codes {
			n.InstallCode(evmasm.FrameAddr(i), code)
			pre[evmasm.FrameAddr(i)] = refevm.Account{Code: code, Storage: map[common.Hash]common.Hash{}, Nonce: 1}
		}
		if len(c.Pre) > 0 {
			cx := n.Ctx()
			db := statedb.New(cx, app.EvmKeeper, statedb.NewEmptyTxConfig(common.BytesToHash(cx.HeaderHash().Bytes())))
			for _, s := range c.Pre {
				if s.Frame < len(codes) {
					k, v := common.BigToHash(new(big.Int).SetUint64(s.Key)), common.BigToHash(new(big.Int).SetUint64(s.Val))
					db.SetState(evmasm.FrameAddr(s.Frame), k, v)
					pre[evmasm.FrameAddr(s.Frame)].Storage[k] = v
				}
			}
			must(db.Commit())
		}
		var to *common.Address
		var data []byte
		switch {
		case c.Create:
			data = evmasm.InitCode(codes[0])
		case len(codes) > 0:
			a := evmasm.FrameAddr(0)
			to = &a
		default:
			a := recv.Hex
			to = &a
		}
		typ := map[string]int{"eth-legacy": 0, "eth-access": 1, "eth-dynamic": 2}[c.Route]
		var al ethtypes.AccessList
		for i := 0; i < c.NAccess && typ > 0; i++ {
			al = append(al, ethtypes.AccessTuple{Address: evmasm.FrameAddr(i), StorageKeys: []common.Hash{common.BigToHash(big.NewInt(int64(i)))}})
		}
		refEnv := func() refevm.Env {
			evmParams := app.EvmKeeper.GetParams(n.Ctx())
			var eips []int
			for _, e := range evmParams.ExtraEIPs {
				eips = append(eips, int(e))
			}
			return refevm.Env{ChainConfig: evmParams.ChainConfig.EthereumConfig(big.NewInt(11235)), ExtraEips: eips, BlockNumber: n.Header.Height, Time: uint64(n.Header.Time.Unix()), BaseFee: effBase, GasLimit: 1 << 50, Coinbase: common.Address{}}
		}
		if c.GasTight > 0 {
			// choose the gas limit just above what the execution needs before refunds (probe with a generous limit)
			probePre := map[common.Address]refevm.Account{}
			for k, v := range pre {
				probePre[k] = v
			}
			probePre[sender.Hex] = refevm.Account{Balance: bal(sender.Addr), Nonce: seq0}
			probePre[recv.Hex] = refevm.Account{Balance: bal(recv.Addr)}
			pr := refevm.Apply(probePre, refevm.Msg{From: sender.Hex, To: to, Nonce: seq0, Value: value, GasLimit: 5000000, GasPrice: price, FeeCap: price, TipCap: tipFor(typ, tip, price), Data: data, Access: al}, refEnv())
			if pr.Err == nil {
				u, rc := pr.UsedGas, pr.State.GetRefund()
				consumed := u + rc
				if rc*5 > consumed {
					consumed = (u*5 + 3) / 4
				}
				c.Gas = consumed + uint64(c.GasTight-1)
				gasB = new(big.Int).SetUint64(c.Gas)
				st.Class("tight-gas-limit")
			}
		}
		e := txb.Eth{Type: typ, ChainID: big.NewInt(11235), Nonce: seq0, To: to, Value: value, Gas: c.Gas, GasPrice: price, FeeCap: price, TipCap: tip, Data: data, Access: al}
		signed := txb.SignEth(sender, e)
		bz, err := txb.WrapEth(signed)
		must(err)
		// reference effective price
		effPrice := new(big.Int).Set(price)
		if typ == 2 {
			effPrice = new(big.Int).Add(tip, effBase)
			if effPrice.Cmp(price) > 0 {
				effPrice = new(big.Int).Set(price)
			}
		}
		sb0, fc0, rb0 := bal(sender.Addr), bal(feeColl), bal(recv.Addr)
		frameBal0 := new(big.Int)
		for i := range codes {
			frameBal0.Add(frameBal0, bal(sdk.AccAddress(evmasm.FrameAddr(i).Bytes())))
		}
		preSender := refevm.Account{Balance: sb0, Nonce: seq0}
		res := n.DeliverTx(bz)
		_, seq1 := txb.AccInfo(n.Ctx(), app, sender.Addr)
		sb1, fc1, rb1 := bal(sender.Addr), bal(feeColl), bal(recv.Addr)
		accepted := seq1 != seq0
		desc := fmt.Sprintf("route %s price %s tip %s base %s(no=%v) minGP %s gas %d mult %s: code %d gasUsed %d log %s", c.Route, price, tip, baseFee, c.NoBaseFee, c.MinGP, c.Gas, c.Mult, res.Code, res.GasUsed, trunc(res.Log))
		// positive control: a generously priced tx must be accepted
		if !accepted {
			// positive control: a tx whose effective price reaches the floor and whose fee cap reaches the base fee
			// must be accepted (the sender is rich and the block gas limit is unlimited)
			if new(big.Int).Mul(effPrice, ten18).Cmp(minRaw) >= 0 && price.Cmp(effBase) >= 0 {
				return fail("well-paid-tx-rejected:"+c.Route, desc)
			}
			if sb1.Cmp(sb0) != 0 || fc1.Cmp(fc0) != 0 {
				return fail("rejected-tx-charged:"+c.Route, fmt.Sprintf("%s; sender %s -> %s", desc, sb0, sb1))
			}
			st.Class("eth-rejected")
			return ""
		}
		st.Class("eth-accepted")
		// (a) floor
		if new(big.Int).Mul(effPrice, ten18).Cmp(minRaw) < 0 {
			return fail("floor:eth:"+c.Route, "accepted with an effective price below the min gas price: "+desc)
		}
		if !c.NoBaseFee && price.Cmp(baseFee) < 0 {
			return fail("fee-cap-below-base-fee:"+c.Route, "accepted with fee cap below the base fee: "+desc)
		}
		// (b) identity
		gasUsed := uint64(res.GasUsed)
		if gasUsed > c.Gas {
			return fail("gas-used-above-limit:"+c.Route, desc)
		}
		if uint64(res.GasWanted) != c.Gas {
			return fail("gas-wanted:"+c.Route, fmt.Sprintf("gasWanted %d != limit; %s", res.GasWanted, desc))
		}
		paid := new(big.Int).Mul(new(big.Int).SetUint64(gasUsed), effPrice)
		frameBal1 := new(big.Int)
		for i := range codes {
			frameBal1.Add(frameBal1, bal(sdk.AccAddress(evmasm.FrameAddr(i).Bytes())))
		}
		createdBal := new(big.Int)
		if c.Create {
			createdBal = bal(sdk.AccAddress(ethcrypto.CreateAddress(sender.Hex, seq0).Bytes()))
		}
		// value that left the sender = what frames + recipient + created contract gained (no mint/burn in these programs)
		moved := new(big.Int).Sub(frameBal1, frameBal0)
		moved.Add(moved, new(big.Int).Sub(rb1, rb0))
		moved.Add(moved, createdBal)
		wantSender := new(big.Int).Sub(sb0, paid)
		wantSender.Sub(wantSender, moved)
		if sb1.Cmp(wantSender) != 0 {
			return fail("sender-net-payment:"+c.Route, fmt.Sprintf("sender %s -> %s, expected %s (gasUsed %d x effPrice %s = %s, value moved %s); %s", sb0, sb1, wantSender, gasUsed, effPrice, paid, moved, desc))
		}
		if d := new(big.Int).Sub(fc1, fc0); d.Cmp(paid) != 0 {
			return fail("fee-collector-credit:"+c.Route, fmt.Sprintf("fee collector received %s, expected gasUsed x effPrice = %s; %s", d, paid, desc))
		}
		if moved.Sign() != 0 && moved.Cmp(value) != 0 {
			return fail("value-moved:"+c.Route, fmt.Sprintf("value moved %s, tx value %s; %s", moved, value, desc))
		}
		// response payload agrees
		var txRes evmtypes.MsgEthereumTxResponse
		if res.Code == 0 {
			if r, err := evmtypes.DecodeTxResponse(res.Data); err == nil {
				txRes = *r
				if txRes.GasUsed != gasUsed {
					return fail("gas-used-mismatch:"+c.Route, fmt.Sprintf("response gas used %d, MsgEthereumTxResponse %d", gasUsed, txRes.GasUsed))
				}
			}
		}
		// (c) EVM gas after refunds from vanilla go-ethereum
		minUsed := new(big.Int).Mul(gasB, decRaw(c.Mult))
		minUsed.Quo(minUsed, ten18)
		if res.Code == 0 {
			pre[sender.Hex] = preSender
			pre[recv.Hex] = refevm.Account{Balance: rb0}
			evmParams := app.EvmKeeper.GetParams(n.Ctx())
			var eips []int
			for _, e := range evmParams.ExtraEIPs {
				eips = append(eips, int(e))
			}
			rr := refevm.Apply(pre, refevm.Msg{From: sender.Hex, To: to, Nonce: seq0, Value: value, GasLimit: c.Gas, GasPrice: effPrice, FeeCap: price, TipCap: tipFor(typ, tip, price), Data: data, Access: al},
				refevm.Env{ChainConfig: evmParams.ChainConfig.EthereumConfig(big.NewInt(11235)), ExtraEips: eips, BlockNumber: n.Header.Height, Time: uint64(n.Header.Time.Unix()), BaseFee: effBase, GasLimit: 1 << 50, Coinbase: common.Address{}})
			if rr.Err != nil {
				st.Class("reference-refused:" + rr.Err.Error())
			} else {
				want := rr.UsedGas
				if minUsed.IsUint64() && minUsed.Uint64() > want {
					want = minUsed.Uint64()
				}
				if gasUsed != want {
					return fail("gas-used:"+c.Route, fmt.Sprintf("gasUsed %d, reference max(EVM gas after refunds %d, floor(mult x limit) %s) = %d (vm error here %q, reference failed=%v %v); %s", gasUsed, rr.UsedGas, minUsed, want, txRes.VmError, rr.Failed, rr.VMErr, desc))
				}
				if (txRes.VmError != "") != rr.Failed {
					return fail("execution-outcome:"+c.Route, fmt.Sprintf("vm error %q but reference failed=%v (%v); %s", txRes.VmError, rr.Failed, rr.VMErr, desc))
				}
				st.Class("reference-evm-compared")
				refunded := rr.State.GetRefund() > 0
				between := minUsed.IsUint64() && rr.UsedGas > minUsed.Uint64() && rr.UsedGas < c.Gas
				if refunded {
					st.Class("with-refund")
				}
				if between || refunded {
					st.NonTrivial(c)
				}
			}
		} else {
			// the message failed as a whole (e.g. intrinsic gas): everything is charged
			if gasUsed != c.Gas {
				return fail("failed-tx-gas:"+c.Route, desc)
			}
			st.Class("eth-failed-as-a-whole")
		}
		if d := new(big.Int).Sub(new(big.Int).Mul(effPrice, ten18), minRaw); d.Sign() >= 0 && d.Cmp(ten18) <= 0 && minRaw.Sign() > 0 {
			st.Class("floor-edge")
			st.NonTrivial(c)
		}
		return ""
	}

	// ---- Cosmos route ----
	var msgs []sdk.Msg
	sent := new(big.Int)
	for i := 0; i < c.NMsgs; i++ {
		a := big.NewInt(int64(1000 + i))
		sent.Add(sent, a)
		msgs = append(msgs, banktypes.NewMsgSend(sender.Addr, recv.Addr, sdk.NewCoins(sdk.NewCoin(chain.Denom, sdkmath.NewIntFromBigInt(a)))))
	}
	fee := new(big.Int).Mul(price, gasB)
	if c.FeeAt == "floor" {
		fee = ceilDiv(new(big.Int).Mul(gasB, minRaw), ten18)
	}
	fee.Add(fee, big.NewInt(c.FeeOff))
	if fee.Sign() < 0 {
		fee = new(big.Int)
	}
	num, _ := txb.AccInfo(n.Ctx(), app, sender.Addr)
	cb := txb.Cosmos{Msgs: msgs, Gas: c.Gas, ChainID: chain.ChainID, AccNum: num, Seq: seq0}
	if fee.Sign() > 0 {
		cb.Fee = sdk.NewCoins(sdk.NewCoin(chain.Denom, sdkmath.NewIntFromBigInt(fee)))
	}
	if c.Route == "cosmos-dyn" {
		cb.ExtOpts = []*codectypes.Any{txb.MustAny(&haqqtypes.ExtensionOptionDynamicFeeTx{MaxPriorityPrice: sdkmath.NewIntFromBigInt(tip)})}
	}
	bz := txb.CosmosTx(sender, cb)
	sb0, fc0 := bal(sender.Addr), bal(feeColl)
	res := n.DeliverTx(bz)
	_, seq1 := txb.AccInfo(n.Ctx(), app, sender.Addr)
	sb1, fc1 := bal(sender.Addr), bal(feeColl)
	accepted := seq1 != seq0
	desc := fmt.Sprintf("route %s declared fee %s (price %s) tip %s base %s(no=%v) minGP %s gas %d: code %d log %s", c.Route, fee, price, tip, baseFee, c.NoBaseFee, c.MinGP, c.Gas, res.Code, trunc(res.Log))
	if !accepted {
		if fee.Cmp(ceilDiv(new(big.Int).Mul(gasB, minRaw), ten18)) >= 0 && new(big.Int).Quo(fee, gasB).Cmp(effBase) >= 0 {
			return fail("well-paid-tx-rejected:"+c.Route, desc)
		}
		if sb1.Cmp(sb0) != 0 {
			return fail("rejected-tx-charged:"+c.Route, desc)
		}
		st.Class("cosmos-rejected")
		return ""
	}
	st.Class("cosmos-accepted")
	taken := new(big.Int).Sub(sb0, sb1)
	if res.Code == 0 {
		taken.Sub(taken, sent)
	}
	required := ceilDiv(new(big.Int).Mul(gasB, minRaw), ten18)
	if d := new(big.Int).Sub(fc1, fc0); d.Cmp(taken) != 0 {
		return fail("fee-collector-credit:"+c.Route, fmt.Sprintf("fee taken from the sender %s but fee collector received %s; %s", taken, d, desc))
	}
	if taken.Cmp(fee) > 0 {
		return fail("overcharged:"+c.Route, fmt.Sprintf("fee taken %s exceeds the declared fee %s; %s", taken, fee, desc))
	}
	if taken.Cmp(required) < 0 {
		key := "floor:cosmos"
		switch {
		case c.Route == "cosmos-dyn" && c.NoBaseFee:
			key = "floor:cosmos:dynamic-fee-ext:no-base-fee"
		case c.Route == "cosmos-dyn":
			key = "floor:cosmos:dynamic-fee-ext:base-fee-below-min"
		case new(big.Int).Sub(required, taken).Cmp(gasB) < 0 && fee.Cmp(required) >= 0:
			key = "floor:cosmos:fee-per-gas-truncation"
		}
		if msg := fail(key, fmt.Sprintf("accepted but only %s was taken, floor is ceil(gas x minGasPrice) = %s; %s", taken, required, desc)); msg != "" {
			return msg
		}
		st.Class("known:" + key)
		return ""
	}
	if d := new(big.Int).Sub(taken, required); d.Cmp(gasB) <= 0 && minRaw.Sign() > 0 {
		st.Class("floor-edge")
		st.NonTrivial(c)
	}
	return ""
}

func tipFor(typ int, tip, price *big.Int) *big.Int {
	if typ == 2 {
		return tip
	}
	return price
}

func init() {
	replayers["TestC07_Fees"] = func(st *ev.Stats, raw json.RawMessage) string {
		var c C07Case
		must(json.Unmarshal(raw, &c))
		return runC07(st, c)
	}
}

func TestC07_Fees(t *testing.T) {
	st := ev.New("C07", "TestC07_Fees", "fee-market configuration x tx (5 routes, prices/tips/fees at the floor and base-fee thresholds ±1..2) x generated EVM program outcome (stores, refunds, logs, nested calls of 4 kinds, value forwarding, revert/invalid/out-of-gas, creation); non-trivial = executed eth tx whose EVM gas lies strictly between mult x limit and the limit or earns a refund, or any accepted tx within one unit of the floor")
	runCorpus(t, st)
	runRapid(t, st, 800, 30000, func(rt *rapid.T) {
		if msg := runC07(st, genC07(rt)); msg != "" {
			rt.Fatalf("%s", msg)
		}
	})
}
