package props

// C08 for a vesting denomination that has a registered ERC20 representation: the grant carries "uxmpl" (a registered
// coin pair) next to the native coin. Debit paths of that denomination: the ERC20-aware bank MsgSend (converts the
// spendable coins and moves tokens), MsgConvertCoin, and both after partial unlocks, conversions back, clawbacks.
// Oracle: whenever uxmpl coins left the account, its uxmpl coin balance is still >= the locked amount the reference
// step function gives at the block time; attempts of spendable+1 are generated on purpose.

import (
	"encoding/json"
	"fmt"
	"math/big"
	"os"
	"testing"
	"time"

	sdkmath "cosmossdk.io/math"
	sdk "github.com/cosmos/cosmos-sdk/types"
	banktypes "github.com/cosmos/cosmos-sdk/x/bank/types"
	"github.com/ethereum/go-ethereum/common"
	"pgregory.net/rapid"

	"verif/chain"
	"verif/ev"
	"verif/txb"

	erc20types "github.com/haqq-network/haqq/x/erc20/types"
	vestingtypes "github.com/haqq-network/haqq/x/vesting/types"
)

type C08DOp struct {
	K    string `json:"k"`    // send2 | convert2 | unconvert2 | clawback | merge
	Mode string `json:"mode"` // spendable (+Off) | abs
	Off  int64  `json:"off"`
	Abs  int64  `json:"abs"`
	Dt   int64  `json:"dt"` // time passing before the op (a new block)
}

type C08DCase struct {
	Lens    []int64  `json:"lens"`     // lockup period lengths
	Amts    []int64  `json:"amts"`     // uxmpl unlocked per lockup period
	VestAll bool     `json:"vest_all"` // vesting: everything vests with the first lockup event (else same as lockup)
	Ops     []C08DOp `json:"ops"`
}

func genC08D(t *rapid.T) C08DCase {
	c := C08DCase{VestAll: rapid.Bool().Draw(t, "vestall")}
	np := rapid.IntRange(1, 4).Draw(t, "np")
	for i := 0; i < np; i++ {
		c.Lens = append(c.Lens, rapid.SampledFrom([]int64{1, 30, 60, 3600, 86400}).Draw(t, "len"))
		c.Amts = append(c.Amts, rapid.SampledFrom([]int64{1, 1000, 250000, 1000000}).Draw(t, "amt"))
	}
	n := rapid.IntRange(2, 9).Draw(t, "nops")
	for i := 0; i < n; i++ {
		op := C08DOp{K: rapid.SampledFrom([]string{"send2", "send2", "send2", "convert2", "convert2", "unconvert2", "clawback", "merge"}).Draw(t, "k")}
		op.Mode = rapid.SampledFrom([]string{"spendable", "spendable", "abs"}).Draw(t, "mode")
		op.Off = rapid.SampledFrom([]int64{0, 0, 1, 1, 2, -1, 1000}).Draw(t, "off")
		op.Abs = rapid.SampledFrom([]int64{1, 999, 250000, 5000000}).Draw(t, "abs")
		op.Dt = rapid.SampledFrom([]int64{0, 0, 1, 29, 31, 61, 3600, 86401}).Draw(t, "dt")
		c.Ops = append(c.Ops, op)
	}
	return c
}

const c08Denom2 = "uxmpl"

func runC08D(st *ev.Stats, c C08DCase) string {
	st.Eval()
	fail := func(key, what string) string { return st.Discrepancy(key, what, c) }
	o := hOpts(History{NumVals: 1})
	V, F, U := chain.Acct("c08d-vesting"), chain.Acct("c08d-funder"), chain.Acct("c08d-user")
	o.Accounts = []chain.Account{V, F, U} // everybody starts with 1e12 free uxmpl
	n := chain.NewNode(o)
	app := n.App
	price := big.NewInt(20_000_000_000)
	cosmosAs := func(signer chain.Account, gas uint64, msgs ...sdk.Msg) (uint32, string) {
		num, seq := txb.AccInfo(n.Ctx(), app, signer.Addr)
		res := n.DeliverTx(txb.CosmosTx(signer, txb.Cosmos{Msgs: msgs, Gas: gas, Fee: coinsOfGas(gas, price), ChainID: chain.ChainID, AccNum: num, Seq: seq}))
		return res.Code, res.Log
	}
	n.BeginBlock(chain.BlockIn{})
	{
		cctx, write := n.Ctx().CacheContext()
		_, err := app.Erc20Keeper.RegisterCoin(cctx, banktypes.Metadata{Description: "example coin", Base: c08Denom2, Display: "xmpl", Name: c08Denom2, Symbol: "XMPL",
			DenomUnits: []*banktypes.DenomUnit{{Denom: c08Denom2, Exponent: 0}, {Denom: "xmpl", Exponent: 6}}})
		must(err)
		write()
	}
	var lock []PeriodJ
	total2 := int64(0)
	for i := range c.Lens {
		lock = append(lock, PeriodJ{Len: c.Lens[i], Amt: []CoinJ{{chain.Denom, "1000000000000000000"}, {c08Denom2, fmt.Sprint(c.Amts[i])}}})
		total2 += c.Amts[i]
	}
	vest := lock
	if c.VestAll {
		vest = []PeriodJ{{Len: c.Lens[0], Amt: []CoinJ{{chain.Denom, fmt.Sprintf("%d000000000000000000", len(c.Lens))}, {c08Denom2, fmt.Sprint(total2)}}}}
	}
	if code, log := cosmosAs(F, 1500000, vestingtypes.NewMsgConvertIntoVestingAccount(F.Addr, V.Addr, n.Header.Time, toPeriods(lock), toPeriods(vest), true, false, nil)); code != 0 {
		st.Class("grant-refused")
		_ = log
		return ""
	}
	pairID := app.Erc20Keeper.GetTokenPairID(n.Ctx(), c08Denom2)
	pair, _ := app.Erc20Keeper.GetTokenPair(n.Ctx(), pairID)
	token := pair.GetERC20Contract()
	tok := func(a chain.Account) *big.Int {
		if b := app.Erc20Keeper.BalanceOf(n.Ctx(), erc20ABI(), token, a.Hex); b != nil {
			return b
		}
		return new(big.Int)
	}
	coin2 := func(a chain.Account) *big.Int {
		return app.BankKeeper.GetBalance(n.Ctx(), a.Addr, c08Denom2).Amount.BigInt()
	}
	locked2 := func() *big.Int {
		va, ok := app.AccountKeeper.GetAccount(n.Ctx(), V.Addr).(*vestingtypes.ClawbackVestingAccount)
		if !ok {
			return new(big.Int)
		}
		start := va.GetStartTime()
		t := n.Header.Time.Unix()
		orig := bi(refOf(va.OriginalVesting), c08Denom2)
		unlocked := bi(stepAt(start, eventsOf(start, fromPeriods(va.LockupPeriods)), t), c08Denom2)
		vested := bi(stepAt(start, eventsOf(start, fromPeriods(va.VestingPeriods)), t), c08Denom2)
		uv := unlocked
		if vested.Cmp(uv) < 0 {
			uv = vested
		}
		return new(big.Int).Sub(orig, uv)
	}
	boundary, viaWrapper, viaConvert := false, false, false
	for i, op := range c.Ops {
		if op.Dt > 0 {
			n.EndBlockCommit()
			n.BeginBlock(chain.BlockIn{Dt: time.Duration(op.Dt) * time.Second})
		}
		bal, lk := coin2(V), locked2()
		spendable := new(big.Int).Sub(bal, lk)
		if spendable.Sign() < 0 {
			spendable = new(big.Int)
		}
		amt := big.NewInt(op.Abs)
		if op.Mode == "spendable" {
			amt = new(big.Int).Add(spendable, big.NewInt(op.Off))
			if op.K == "send2" {
				amt.Add(amt, tok(V)) // the wrapper also spends the ERC20 form
			}
			boundary = boundary || (op.Off >= -1 && op.Off <= 2)
		}
		if amt.Sign() <= 0 {
			amt = big.NewInt(1)
		}
		holdV0, holdU0 := new(big.Int).Add(coin2(V), tok(V)), new(big.Int).Add(coin2(U), tok(U))
		var code uint32
		var log string
		switch op.K {
		case "send2":
			code, log = cosmosAs(V, 12000000, banktypes.NewMsgSend(V.Addr, U.Addr, sdk.NewCoins(sdk.NewCoin(c08Denom2, sdkmath.NewIntFromBigInt(amt)))))
		case "convert2":
			code, log = cosmosAs(V, 3000000, erc20types.NewMsgConvertCoin(sdk.NewCoin(c08Denom2, sdkmath.NewIntFromBigInt(amt)), V.Hex, V.Addr))
		case "unconvert2":
			code, log = cosmosAs(V, 3000000, erc20types.NewMsgConvertERC20(sdkmath.NewIntFromBigInt(amt), V.Addr, token, V.Hex))
		case "clawback":
			code, log = cosmosAs(F, 800000, vestingtypes.NewMsgClawback(F.Addr, V.Addr, U.Addr))
		case "merge":
			one := []PeriodJ{{Len: 60, Amt: []CoinJ{{chain.Denom, "1000000000000000000"}, {c08Denom2, "1000"}}}}
			code, log = cosmosAs(F, 1500000, vestingtypes.NewMsgConvertIntoVestingAccount(F.Addr, V.Addr, n.Header.Time, toPeriods(one), toPeriods(one), true, false, nil))
		}
		if code != 0 {
			if os.Getenv("VERIF_DEBUG") != "" {
				fmt.Printf("DEBUG C08D refused %+v amt %s (coin %s locked %s tok %s): %s\n", op, amt, bal, lk, tok(V), trunc(log))
			}
			st.Class("refused:" + op.K)
			continue
		}
		st.Class("accepted:" + op.K)
		bal1, lk1 := coin2(V), locked2()
		desc := fmt.Sprintf("op %d %+v (amount %s) accepted: uxmpl coin balance %s -> %s, locked(ref) %s -> %s, tokens %s", i, op, amt, bal, bal1, lk, lk1, tok(V))
		if bal1.Cmp(bal) < 0 && bal1.Cmp(lk1) < 0 {
			return fail("locked-coins-left:"+op.K, desc)
		}
		if op.K == "send2" {
			viaWrapper = true
			if d := new(big.Int).Sub(holdV0, new(big.Int).Add(coin2(V), tok(V))); d.Cmp(amt) != 0 {
				return fail("send-amount:"+op.K, desc+fmt.Sprintf("; sender's holdings (coin + token) fell by %s", d))
			}
			if d := new(big.Int).Sub(new(big.Int).Add(coin2(U), tok(U)), holdU0); d.Cmp(amt) != 0 {
				return fail("send-amount:"+op.K, desc+fmt.Sprintf("; recipient's holdings rose by %s", d))
			}
		}
		if op.K == "convert2" {
			viaConvert = true
		}
	}
	_ = common.Address{}
	if boundary && (viaWrapper || viaConvert) {
		st.NonTrivial(c)
	}
	return ""
}

func init() {
	replayers["TestC08_SecondDenom"] = func(st *ev.Stats, raw json.RawMessage) string {
		var c C08DCase
		must(json.Unmarshal(raw, &c))
		return runC08D(st, c)
	}
}

func TestC08_SecondDenom(t *testing.T) {
	st := ev.New("C08", "TestC08_SecondDenom", "a clawback vesting grant that carries a second denomination with a registered ERC20 representation (1-4 lockup periods, vesting equal to the lockup or all at the first event); 2-9 ops with time passing in between: ERC20-aware bank send, MsgConvertCoin (amounts = spendable + {-1,0,1,2,1000} or absolute), conversion back, clawback, a further grant; non-trivial = a boundary amount went through the wrapper or the conversion")
	runCorpus(t, st)
	runRapid(t, st, 300, 30000, func(rt *rapid.T) {
		if msg := runC08D(st, genC08D(rt)); msg != "" {
			rt.Fatalf("%s", msg)
		}
	})
}
