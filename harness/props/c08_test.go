package props

// C08 — locked and unvested coins cannot leave a vesting account.
//
// Stateful PBT: a fresh chain per case; a funder converts an account V into a clawback vesting account with a generated
// lockup/vesting schedule (1-6 periods each, lengths seconds..2 years); then blocks with generated time jumps in
// which V tries to get coins out over every path at amounts around its spendable balance (±1), interleaved with
// delegations, undelegations, grants merged by the funder, clawbacks and slashing of the validator V delegates to.
// Oracle after every successful transaction: bank balance(V) >= locked, with
//   locked = max(original - unlockedVested - trackedDelegated, unvested)   (all recomputed by the reference step function
// from the stored account fields), and after a successful delegation by V: balance(V) >= unvested.

import (
	"encoding/base64"
	"encoding/json"
	"fmt"
	"math/big"
	"os"
	"testing"
	"time"

	sdkmath "cosmossdk.io/math"
	"github.com/cosmos/cosmos-sdk/crypto/keys/ed25519"
	sdk "github.com/cosmos/cosmos-sdk/types"
	"github.com/cosmos/cosmos-sdk/x/authz"
	banktypes "github.com/cosmos/cosmos-sdk/x/bank/types"
	govv1 "github.com/cosmos/cosmos-sdk/x/gov/types/v1"
	stakingtypes "github.com/cosmos/cosmos-sdk/x/staking/types"
	"pgregory.net/rapid"

	"verif/chain"
	"verif/ev"
	"verif/pabi"
	"verif/txb"

	stakingpc "github.com/haqq-network/haqq/precompiles/staking"
	lvtypes "github.com/haqq-network/haqq/x/liquidvesting/types"
	ucdaotypes "github.com/haqq-network/haqq/x/ucdao/types"
	vestingtypes "github.com/haqq-network/haqq/x/vesting/types"
)

var c08ValKey = ed25519.GenPrivKeyFromSecret([]byte("c08-new-validator"))

type C08Op struct {
	K    string `json:"k"`    // send | multisend | eth-send | highfee | gov-deposit | dao-fund | delegate | eth-delegate | exec-delegate | undelegate | liquidate | merge | clawback | receive
	Mode string `json:"mode"` // amount = spendable + Off | unvested-free + Off | abs
	Off  int64  `json:"off"`
	Abs  string `json:"abs"` // milli-ISLM
	Val  int    `json:"val"`
}

type C08Block struct {
	Dt         int64   `json:"dt"`
	DoubleSign int     `json:"double_sign,omitempty"`
	Ops        []C08Op `json:"ops"`
}

type C08Case struct {
	Lockup    []PeriodJ  `json:"lockup"`
	Vesting   []PeriodJ  `json:"vesting"`    // may be empty: vested immediately
	StartBack int64      `json:"start_back"` // schedule start = first block time - StartBack seconds
	Free      string     `json:"free"`       // milli-ISLM that V owns outside the grant
	Blocks    []C08Block `json:"blocks"`
}

var c08Lens = []int64{1, 5, 30, 60, 61, 3600, 86400, 2592000, 31536000, 63072000}

func genC08Periods(t *rapid.T, label string, total *big.Int, n int) []PeriodJ {
	out := make([]PeriodJ, n)
	rem := new(big.Int).Set(total)
	for i := 0; i < n; i++ {
		out[i].Len = rapid.SampledFrom(c08Lens).Draw(t, label+"-len")
		take := new(big.Int).Set(rem)
		if i < n-1 {
			take.Mul(take, big.NewInt(int64(rapid.IntRange(1, 7).Draw(t, label+"-frac"))))
			take.Quo(take, big.NewInt(8))
		}
		if take.Sign() <= 0 {
			take = big.NewInt(1)
		}
		if take.Cmp(rem) > 0 {
			take = new(big.Int).Set(rem)
		}
		rem.Sub(rem, take)
		if take.Sign() > 0 {
			out[i].Amt = []CoinJ{{chain.Denom, take.String()}}
		}
	}
	if rem.Sign() > 0 {
		last := bigOf(out[n-1].Amt[0].Amt)
		out[n-1].Amt[0].Amt = last.Add(last, rem).String()
	}
	return out
}

func genC08(t *rapid.T) C08Case {
	c := C08Case{}
	total := milli(rapid.SampledFrom([]string{"1000000", "2000000", "7000000", "1500001"}).Draw(t, "total"))
	c.Lockup = genC08Periods(t, "lock", total, rapid.IntRange(1, 5).Draw(t, "nlock"))
	if rapid.IntRange(0, 3).Draw(t, "vested-now") > 0 {
		c.Vesting = genC08Periods(t, "vest", total, rapid.IntRange(1, 5).Draw(t, "nvest"))
	}
	c.StartBack = rapid.SampledFrom([]int64{0, 0, 10, 100, 4000}).Draw(t, "startback")
	c.Free = rapid.SampledFrom([]string{"5000", "100000", "3000000"}).Draw(t, "free")
	nb := rapid.IntRange(2, 8).Draw(t, "nblocks")
	for i := 0; i < nb; i++ {
		b := C08Block{Dt: rapid.SampledFrom([]int64{1, 5, 29, 30, 31, 61, 3600, 86401, 2592000, 31536000, 63072001}).Draw(t, "dt")}
		if rapid.IntRange(0, 9).Draw(t, "ds") == 0 {
			b.DoubleSign = 1 + rapid.IntRange(0, 1).Draw(t, "dsv")
		}
		no := rapid.IntRange(1, 5).Draw(t, "nops")
		for j := 0; j < no; j++ {
			op := C08Op{K: rapid.SampledFrom([]string{"send", "send", "multisend", "eth-send", "eth-send", "highfee", "gov-deposit", "dao-fund", "delegate", "delegate", "eth-delegate", "exec-delegate", "create-validator", "eth-create-validator", "undelegate", "liquidate", "merge", "merge-stake", "clawback", "receive", "convert-back", "legacy-split"}).Draw(t, "k")}
			op.Mode = rapid.SampledFrom([]string{"spendable", "spendable", "spendable", "delegatable", "abs"}).Draw(t, "mode")
			op.Off = rapid.SampledFrom([]int64{0, 0, 1, -1, 2, -2, 1000000}).Draw(t, "off")
			op.Abs = rapid.SampledFrom([]string{"1", "1000", "500000", "1000000", "9000000"}).Draw(t, "abs")
			op.Val = rapid.IntRange(0, 1).Draw(t, "val")
			b.Ops = append(b.Ops, op)
		}
		if rapid.IntRange(0, 2).Draw(t, "redelegate-scenario") == 0 {
			// delegate part of what is delegatable, then try to delegate one unit more than what remains, over each path
			first := rapid.SampledFrom([]string{"delegate", "exec-delegate", "eth-delegate"}).Draw(t, "sc-first")
			second := rapid.SampledFrom([]string{"delegate", "exec-delegate", "eth-delegate", "eth-delegate", "create-validator", "eth-create-validator"}).Draw(t, "sc-second")
			b.Ops = append(b.Ops, C08Op{K: first, Mode: "abs", Abs: rapid.SampledFrom([]string{"1000", "500000"}).Draw(t, "sc-amt"), Val: 0},
				C08Op{K: second, Mode: "delegatable", Off: rapid.SampledFrom([]int64{1, 1, 2, 1000000000000000000}).Draw(t, "sc-off"), Val: 1})
		}
		c.Blocks = append(c.Blocks, b)
	}
	if nb >= 2 && rapid.IntRange(0, 2).Draw(t, "clawback-scenario") == 0 {
		// the funder claws back (or adds a grant), and right afterwards the account tries to move one unit more than what
		// the reference says is spendable, over two different paths
		i := rapid.IntRange(0, nb-2).Draw(t, "cb-at")
		first := rapid.SampledFrom([]string{"clawback", "clawback", "merge"}).Draw(t, "cb-first")
		c.Blocks[i].Ops = append(c.Blocks[i].Ops, C08Op{K: first, Mode: "abs", Abs: "1000"})
		c.Blocks[i+1].Dt = rapid.SampledFrom([]int64{1, 5, 30, 61}).Draw(t, "cb-dt")
		c.Blocks[i+1].Ops = append([]C08Op{
			{K: rapid.SampledFrom([]string{"send", "eth-send", "multisend"}).Draw(t, "cb-path1"), Mode: "spendable", Off: rapid.SampledFrom([]int64{1, 1, 2, 1000000}).Draw(t, "cb-off")},
			{K: rapid.SampledFrom([]string{"send", "gov-deposit", "dao-fund"}).Draw(t, "cb-path2"), Mode: "spendable", Off: 0},
		}, c.Blocks[i+1].Ops...)
	}
	return c
}

// c08Locked recomputes the locked amount of a stored vesting account with the reference step function.
func c08Locked(va *vestingtypes.ClawbackVestingAccount, now time.Time) (locked, unvested *big.Int) {
	start := va.GetStartTime()
	lev, vev := eventsOf(start, fromPeriods(va.LockupPeriods)), eventsOf(start, fromPeriods(va.VestingPeriods))
	orig := bi(refOf(va.OriginalVesting), chain.Denom)
	t := now.Unix()
	// from the periods alone (the stored EndTime is derived data: a wrong EndTime must not be believed)
	read := func(evs []refEvent) *big.Int { return bi(stepAt(start, evs, t), chain.Denom) }
	unlocked, vested := read(lev), read(vev)
	uv := unlocked
	if vested.Cmp(uv) < 0 {
		uv = vested
	}
	delegated := new(big.Int).Add(va.DelegatedFree.AmountOf(chain.Denom).BigInt(), va.DelegatedVesting.AmountOf(chain.Denom).BigInt())
	unvested = new(big.Int).Sub(orig, vested)
	locked = new(big.Int).Sub(orig, uv)
	locked.Sub(locked, delegated)
	if locked.Cmp(unvested) < 0 {
		locked = new(big.Int).Set(unvested)
	}
	if locked.Sign() < 0 {
		locked = new(big.Int)
	}
	return locked, unvested
}

func runC08(st *ev.Stats, c C08Case) string {
	st.Eval()
	fail := func(key, what string) string { return st.Discrepancy(key, what, c) }
	h := History{NumVals: 2}
	o := hOpts(h)
	V, F, U := chain.Acct("c08-vesting"), chain.Acct("c08-funder"), chain.Acct("c08-user")
	o.Accounts = []chain.Account{F, U}
	n := chain.NewNode(o)
	r := newHRunner(n)
	app := n.App
	price := big.NewInt(20_000_000_000)
	cosmosAs := func(signer chain.Account, gas uint64, gasPrice *big.Int, msgs ...sdk.Msg) (uint32, string) {
		num, seq := txb.AccInfo(n.Ctx(), app, signer.Addr)
		bz := txb.CosmosTx(signer, txb.Cosmos{Msgs: msgs, Gas: gas, Fee: coinsOfGas(gas, gasPrice), ChainID: chain.ChainID, AccNum: num, Seq: seq})
		res := n.DeliverTx(bz)
		return res.Code, res.Log
	}
	// block 1: give V its free coins and the grant
	n.BeginBlock(chain.BlockIn{})
	coin := func(v *big.Int) sdk.Coins { return sdk.NewCoins(sdk.NewCoin(chain.Denom, sdkmath.NewIntFromBigInt(v))) }
	if code, log := cosmosAs(F, 300000, price, banktypes.NewMsgSend(F.Addr, V.Addr, coin(milli(c.Free)))); code != 0 {
		panic(log)
	}
	start := n.Header.Time.Add(-time.Duration(c.StartBack) * time.Second)
	if code, log := cosmosAs(F, 1200000, price, vestingtypes.NewMsgConvertIntoVestingAccount(F.Addr, V.Addr, start, toPeriods(c.Lockup), toPeriods(c.Vesting), true, false, nil)); code != 0 {
		st.Class("grant-refused")
		_ = log
		return ""
	}
	// V lets U delegate on its behalf (for the "through a grant" path)
	exp := n.Header.Time.AddDate(10, 0, 0)
	g, err := authz.NewMsgGrant(V.Addr, U.Addr, authz.NewGenericAuthorization(sdk.MsgTypeURL(&stakingtypes.MsgDelegate{})), &exp)
	must(err)
	cosmosAs(V, 400000, price, g)
	n.EndBlockCommit()

	vals := func() []stakingtypes.Validator { return r.bondedVals() }
	nonBankPath, boundary, lockedBetween, slashed := false, false, false, false
	for bi_, b := range c.Blocks {
		in := chain.BlockIn{Dt: time.Duration(b.Dt) * time.Second}
		if b.DoubleSign > 0 {
			slashed = true
			in.Evidence = r.evidenceFor(b.DoubleSign - 1)
		}
		n.BeginBlock(in)
		for oi, op := range b.Ops {
			acc := app.AccountKeeper.GetAccount(n.Ctx(), V.Addr)
			va, isVesting := acc.(*vestingtypes.ClawbackVestingAccount)
			if !isVesting {
				break
			}
			now := n.Header.Time
			bal := n.Balance(V.Addr)
			locked, unvested := c08Locked(va, now)
			spendable := new(big.Int).Sub(bal, locked)
			if spendable.Sign() < 0 {
				spendable = new(big.Int)
			}
			if locked.Sign() > 0 && locked.Cmp(bal) < 0 {
				lockedBetween = true
			}
			var amt *big.Int
			switch op.Mode {
			case "spendable":
				amt = new(big.Int).Add(spendable, big.NewInt(op.Off))
			case "delegatable":
				amt = new(big.Int).Add(new(big.Int).Sub(bal, unvested), big.NewInt(op.Off))
			default:
				amt = milli(op.Abs)
			}
			if amt.Sign() <= 0 {
				amt = big.NewInt(1)
			}
			vs := vals()
			val := vs[op.Val%len(vs)].GetOperator()
			gas := uint64(400000)
			fee := new(big.Int).Mul(price, new(big.Int).SetUint64(gas))
			// "spend exactly what is spendable": leave room for the fee in the boundary modes
			if op.Mode == "spendable" && op.K != "eth-send" && op.K != "eth-delegate" && op.K != "eth-create-validator" && op.K != "receive" && op.K != "merge" && op.K != "merge-stake" && op.K != "clawback" && op.K != "convert-back" && op.K != "legacy-split" {
				amt = new(big.Int).Sub(amt, fee)
				if amt.Sign() <= 0 {
					amt = big.NewInt(1)
				}
			}
			isDelegation := false
			var code uint32
			var log string
			switch op.K {
			case "send":
				code, log = cosmosAs(V, gas, price, banktypes.NewMsgSend(V.Addr, U.Addr, coin(amt)))
			case "multisend":
				half := new(big.Int).Quo(amt, big.NewInt(2))
				rest := new(big.Int).Sub(amt, half)
				if half.Sign() == 0 {
					continue
				}
				code, log = cosmosAs(V, gas, price, &banktypes.MsgMultiSend{Inputs: []banktypes.Input{{Address: V.Addr.String(), Coins: coin(amt)}},
					Outputs: []banktypes.Output{{Address: U.Addr.String(), Coins: coin(half)}, {Address: F.Addr.String(), Coins: coin(rest)}}})
			case "eth-send":
				_, seq := txb.AccInfo(n.Ctx(), app, V.Addr)
				to := U.Hex
				egas := uint64(21000)
				efee := new(big.Int).Mul(price, new(big.Int).SetUint64(egas))
				v := new(big.Int).Set(amt)
				if op.Mode == "spendable" {
					v.Sub(v, efee)
					if v.Sign() <= 0 {
						v = big.NewInt(1)
					}
				}
				res := n.DeliverTx(txb.EthTx(V, txb.Eth{Type: 0, ChainID: big.NewInt(11235), Nonce: seq, To: &to, Value: v, Gas: egas, GasPrice: price}))
				code, log = res.Code, res.Log
				if vm, _ := decodeEthResponse(res.Data); vm != "" {
					code = 999
				}
				nonBankPath = nonBankPath || code == 0
			case "highfee":
				// pay (almost) everything spendable as fee of a tiny send
				p := new(big.Int).Quo(new(big.Int).Add(spendable, big.NewInt(op.Off)), new(big.Int).SetUint64(gas))
				if p.Cmp(price) < 0 {
					p = price
				}
				code, log = cosmosAs(V, gas, p, banktypes.NewMsgSend(V.Addr, U.Addr, coin(big.NewInt(1))))
				nonBankPath = nonBankPath || code == 0
			case "gov-deposit":
				m, err := govv1.NewMsgSubmitProposal(nil, coin(amt), V.Addr.String(), "m", "t", "s")
				must(err)
				code, log = cosmosAs(V, 600000, price, m)
				nonBankPath = nonBankPath || code == 0
			case "dao-fund":
				code, log = cosmosAs(V, gas, price, ucdaotypes.NewMsgFund(coin(amt), V.Addr))
				nonBankPath = nonBankPath || code == 0
			case "delegate":
				isDelegation = true
				code, log = cosmosAs(V, 500000, price, stakingtypes.NewMsgDelegate(V.Addr, val, coin(amt)[0]))
			case "exec-delegate":
				isDelegation = true
				ex := authz.NewMsgExec(U.Addr, []sdk.Msg{stakingtypes.NewMsgDelegate(V.Addr, val, coin(amt)[0])})
				code, log = cosmosAs(U, 700000, price, &ex)
			case "eth-delegate":
				isDelegation = true
				_, seq := txb.AccInfo(n.Ctx(), app, V.Addr)
				to := pabi.StakingAddr
				res := n.DeliverTx(txb.EthTx(V, txb.Eth{Type: 0, ChainID: big.NewInt(11235), Nonce: seq, To: &to, Value: big.NewInt(0), Gas: 800000, GasPrice: price,
					Data: pabi.Pack("staking", "delegate", V.Hex, val.String(), amt)}))
				code, log = res.Code, res.Log
				if vm, _ := decodeEthResponse(res.Data); vm != "" {
					code = 999
				}
			case "create-validator", "eth-create-validator":
				// the account becomes a validator operator: the self-delegation is a delegation like any other
				if _, found := app.StakingKeeper.GetValidator(n.Ctx(), sdk.ValAddress(V.Addr)); found {
					continue
				}
				isDelegation = true
				if op.K == "create-validator" {
					m, err := stakingtypes.NewMsgCreateValidator(sdk.ValAddress(V.Addr), c08ValKey.PubKey(), coin(amt)[0], stakingtypes.Description{Moniker: "c08"},
						stakingtypes.NewCommissionRates(sdk.NewDecWithPrec(10, 2), sdk.NewDecWithPrec(20, 2), sdk.NewDecWithPrec(1, 2)), sdk.OneInt())
					must(err)
					code, log = cosmosAs(V, 900000, price, m)
				} else {
					one := func(s string) *big.Int { return sdkmath.LegacyMustNewDecFromStr(s).BigInt() }
					_, seq := txb.AccInfo(n.Ctx(), app, V.Addr)
					to := pabi.StakingAddr
					res := n.DeliverTx(txb.EthTx(V, txb.Eth{Type: 0, ChainID: big.NewInt(11235), Nonce: seq, To: &to, Value: big.NewInt(0), Gas: 1200000, GasPrice: price,
						Data: pabi.Pack("staking", "createValidator", stakingpc.Description{Moniker: "c08"},
							stakingpc.Commission{Rate: one("0.10"), MaxRate: one("0.20"), MaxChangeRate: one("0.01")},
							big.NewInt(1), V.Hex, sdk.ValAddress(V.Addr).String(), base64.StdEncoding.EncodeToString(c08ValKey.PubKey().Bytes()), amt)}))
					code, log = res.Code, res.Log
					if vm, _ := decodeEthResponse(res.Data); vm != "" {
						code = 999
					}
				}
			case "undelegate":
				dels := app.StakingKeeper.GetDelegatorDelegations(n.Ctx(), V.Addr, 10)
				if len(dels) == 0 {
					continue
				}
				d := dels[op.Val%len(dels)]
				vv, _ := app.StakingKeeper.GetValidator(n.Ctx(), d.GetValidatorAddr())
				tokens := vv.TokensFromShares(d.Shares).TruncateInt().QuoRaw(2)
				if !tokens.IsPositive() {
					continue
				}
				code, log = cosmosAs(V, 600000, price, stakingtypes.NewMsgUndelegate(V.Addr, d.GetValidatorAddr(), sdk.NewCoin(chain.Denom, tokens)))
			case "liquidate":
				l := va.GetLockedUpCoins(now).AmountOf(chain.Denom)
				if !l.IsPositive() {
					continue
				}
				code, log = cosmosAs(V, 15000000, price, lvtypes.NewMsgLiquidate(V.Addr, U.Addr, sdk.NewCoin(chain.Denom, l.QuoRaw(2))))
				nonBankPath = nonBankPath || code == 0
			case "merge":
				lk := genFixedPeriods(amt, []int64{60, 86400})
				code, log = cosmosAs(F, 1200000, price, vestingtypes.NewMsgConvertIntoVestingAccount(F.Addr, V.Addr, now, toPeriods(lk), nil, true, false, nil))
			case "merge-stake":
				// a further grant, part of which vests at once and is delegated by the message itself; the rest vests later
				q := new(big.Int).Quo(amt, big.NewInt(4))
				if q.Sign() == 0 {
					continue
				}
				vest := []PeriodJ{{Len: 1, Amt: []CoinJ{{chain.Denom, q.String()}}}, {Len: 2000, Amt: []CoinJ{{chain.Denom, q.String()}}},
					{Len: 2000, Amt: []CoinJ{{chain.Denom, q.String()}}}, {Len: 2000, Amt: []CoinJ{{chain.Denom, new(big.Int).Sub(amt, new(big.Int).Mul(q, big.NewInt(3))).String()}}}}
				lk := []PeriodJ{{Len: 60, Amt: []CoinJ{{chain.Denom, amt.String()}}}}
				vs := vals()
				isDelegation = true
				code, log = cosmosAs(F, 1500000, price, vestingtypes.NewMsgConvertIntoVestingAccount(F.Addr, V.Addr, now.Add(-time.Second), toPeriods(lk), toPeriods(vest), true, true, vs[op.Val%len(vs)].GetOperator()))
			case "convert-back":
				// the account asks to become a plain account again: only possible once nothing is locked or unvested any more,
				// whatever part of it is delegated
				code, log = cosmosAs(V, 600000, price, vestingtypes.NewMsgConvertVestingAccount(V.Addr))
				if code == 0 {
					noDel := *va
					noDel.DelegatedFree, noDel.DelegatedVesting = nil, nil
					lockedNoDel, unv := c08Locked(&noDel, now)
					if lockedNoDel.Sign() > 0 || unv.Sign() > 0 {
						return fail("converted-while-locked", fmt.Sprintf("block %d op %d: the vesting account was turned into a plain account while %s of its coins were still locked (unvested %s; tracked delegations %s)", bi_+1, oi, lockedNoDel, unv, va.DelegatedFree))
					}
					st.Class("accepted:convert-back")
				} else {
					st.Class("refused:convert-back")
				}
				continue
			case "legacy-split":
				// a legacy account: part of its tracked delegation sits in the DelegatedVesting field (as accounts created
				// before the tracking was unified, or imported through genesis, have it); the total stays the same
				if va.DelegatedFree.IsZero() {
					continue
				}
				half := sdk.NewCoins(sdk.NewCoin(chain.Denom, va.DelegatedFree.AmountOf(chain.Denom).QuoRaw(2).AddRaw(1)))
				va.DelegatedFree = va.DelegatedFree.Sub(half...)
				va.DelegatedVesting = va.DelegatedVesting.Add(half...)
				app.AccountKeeper.SetAccount(n.Ctx(), va)
				st.Class("legacy-delegated-vesting")
				continue
			case "clawback":
				code, log = cosmosAs(F, 600000, price, vestingtypes.NewMsgClawback(F.Addr, V.Addr, U.Addr))
			case "receive":
				code, log = cosmosAs(U, gas, price, banktypes.NewMsgSend(U.Addr, V.Addr, coin(amt)))
			}
			if op.Mode != "abs" && (op.Off >= -2 && op.Off <= 2) {
				boundary = true
			}
			if code != 0 {
				st.Class("refused:" + op.K)
				if os.Getenv("VERIF_DEBUG") != "" {
					fmt.Printf("DEBUG C08 refused %s: %s\n", op.K, trunc(log))
				}
				_ = log
				continue
			}
			st.Class("accepted:" + op.K)
			// oracle
			acc2 := app.AccountKeeper.GetAccount(n.Ctx(), V.Addr)
			va2, still := acc2.(*vestingtypes.ClawbackVestingAccount)
			if !still {
				continue
			}
			bal2 := n.Balance(V.Addr)
			locked2, unvested2 := c08Locked(va2, now)
			if !slashed {
				// the delegated amount the account is credited with (it reduces "locked") is backed by coins that really are
				// bonded or unbonding; only a slash can legitimately make the stake smaller than the tracked amount
				staked := new(big.Int)
				for _, d := range app.StakingKeeper.GetDelegatorDelegations(n.Ctx(), V.Addr, 100) {
					if v, ok := app.StakingKeeper.GetValidator(n.Ctx(), d.GetValidatorAddr()); ok {
						staked.Add(staked, v.TokensFromShares(d.Shares).Ceil().TruncateInt().BigInt())
					}
				}
				for _, u := range app.StakingKeeper.GetUnbondingDelegations(n.Ctx(), V.Addr, 100) {
					for _, e := range u.Entries {
						staked.Add(staked, e.Balance.BigInt())
					}
				}
				tracked := new(big.Int).Add(va2.DelegatedFree.AmountOf(chain.Denom).BigInt(), va2.DelegatedVesting.AmountOf(chain.Denom).BigInt())
				if tracked.Cmp(staked) > 0 {
					return fail("tracked-delegation-exceeds-stake:"+op.K, fmt.Sprintf("block %d op %d %+v accepted: the account tracks %s as delegated but only %s is bonded or unbonding (no slash happened)", bi_+1, oi, op, tracked, staked))
				}
			}
			desc := fmt.Sprintf("block %d op %d %+v (amount %s) accepted: balance %s -> %s, locked(ref) %s -> %s, unvested %s, delegated free %s", bi_+1, oi, op, amt, bal, bal2, locked, locked2, unvested2, va2.DelegatedFree)
			if isDelegation {
				if bal2.Cmp(unvested2) < 0 {
					return fail("unvested-delegated:"+op.K, desc)
				}
			} else if bal2.Cmp(bal) < 0 && bal2.Cmp(locked2) < 0 {
				// coins left the account and less than the locked amount remains. (Without an outflow nothing is
				// required: a slash of delegated locked coins is a sanctioned loss, and a merge re-tracks the delegated
				// amounts, after which "locked" can exceed a balance from which nothing was taken.)
				return fail("locked-coins-left:"+op.K, desc)
			} else if bal2.Cmp(bal) >= 0 && bal2.Cmp(locked2) < 0 {
				st.Class("locked-exceeds-balance-without-outflow:" + op.K)
			}
		}
		n.EndBlockCommit()
	}
	if lockedBetween {
		st.Class("locked-strictly-between-0-and-balance")
	}
	if boundary {
		st.Class("boundary-amount")
	}
	if lockedBetween && nonBankPath {
		st.NonTrivial(c)
	}
	return ""
}

func genFixedPeriods(total *big.Int, lens []int64) []PeriodJ {
	half := new(big.Int).Quo(total, big.NewInt(2))
	rest := new(big.Int).Sub(total, half)
	out := []PeriodJ{}
	if half.Sign() > 0 {
		out = append(out, PeriodJ{Len: lens[0], Amt: []CoinJ{{chain.Denom, half.String()}}})
	}
	out = append(out, PeriodJ{Len: lens[1], Amt: []CoinJ{{chain.Denom, rest.String()}}})
	return out
}

func init() {
	replayers["TestC08_Locked"] = func(st *ev.Stats, raw json.RawMessage) string {
		var c C08Case
		must(json.Unmarshal(raw, &c))
		return runC08(st, c)
	}
}

func TestC08_Locked(t *testing.T) {
	st := ev.New("C08", "TestC08_Locked", "fresh chain; generated lockup (1-5 periods) and vesting (0-5 periods) schedules applied to an account with some free coins; 2-8 blocks with time jumps across period boundaries, in which the vesting account spends over bank send / multi-send / eth value transfer / fee / gov deposit / DAO fund / liquidation and delegates by message / authz exec / staking precompile at amounts around spendable ±1..2, interleaved with undelegations, merged grants, clawbacks, slashing; non-trivial = at some point 0 < locked < balance and a spend over a path other than bank send was accepted")
	runCorpus(t, st)
	runRapid(t, st, 300, 30000, func(rt *rapid.T) {
		if msg := runC08(st, genC08(rt)); msg != "" {
			rt.Fatalf("%s", msg)
		}
	})
}
