package props

// C09 (keeper level) — merge yields the union of release events, clawback only by the recorded funder, exactly the
// unvested amount to the destination, vested coins kept under min(old lockup, vested), funder updates respected.
//
// Histories of create / merge (both message types) / clawback / update-funder / time steps over two vesting accounts and
// three possible funders, executed through the message router on a cached deliver-state context.
// Oracle: a reference account made of ABSOLUTE release events (big.Int), independent of the period-list arithmetic.

import (
	"encoding/json"
	"fmt"
	"math/big"
	"sort"
	"sync"
	"testing"
	"time"

	sdk "github.com/cosmos/cosmos-sdk/types"
	"pgregory.net/rapid"

	"verif/chain"
	"verif/ev"

	vestingtypes "github.com/haqq-network/haqq/x/vesting/types"
)

type C09KOp struct {
	K       string    `json:"k"` // create | merge | convert | clawback | funder | advance
	Acc     int       `json:"acc"`
	Signer  int       `json:"signer"` // index into funders
	To      int       `json:"to"`     // new funder / clawback destination
	Back    int64     `json:"back"`   // grant start = now - Back (may be negative: starts in the future)
	Lockup  []PeriodJ `json:"lockup,omitempty"`
	Vesting []PeriodJ `json:"vesting,omitempty"`
	Dt      int64     `json:"dt"`
}

type C09KCase struct {
	Ops []C09KOp `json:"ops"`
}

var (
	c09kOnce sync.Once
	c09kNode *chain.Node
)

func c09kFunders() []chain.Account { return chain.Accts("c09k-funder", 3) }
func c09kAccs() []chain.Account    { return chain.Accts("c09k-acc", 2) }

func c09kSetup() {
	c09kOnce.Do(func() {
		c09kNode = chain.NewNode(chain.Opts{Accounts: append(c09kFunders(), chain.Acct("c09k-dest"))})
		c09kNode.BeginBlock(chain.BlockIn{})
	})
}

var c09kLens = []int64{1, 10, 60, 61, 3600, 86400}

func genC09KSched(t *rapid.T, label string, total *big.Int) []PeriodJ {
	n := rapid.IntRange(1, 4).Draw(t, label+"-n")
	var out []PeriodJ
	rem := new(big.Int).Set(total)
	for i := 0; i < n; i++ {
		take := new(big.Int).Set(rem)
		if i < n-1 {
			take.Mul(take, big.NewInt(int64(rapid.IntRange(1, 3).Draw(t, label+"-frac"))))
			take.Quo(take, big.NewInt(4))
		}
		rem.Sub(rem, take)
		if take.Sign() > 0 {
			out = append(out, PeriodJ{Len: rapid.SampledFrom(c09kLens).Draw(t, label+"-len"), Amt: []CoinJ{{chain.Denom, take.String()}}})
		}
	}
	return out
}

func genC09K(t *rapid.T) C09KCase {
	c := C09KCase{}
	n := rapid.IntRange(2, 10).Draw(t, "nops")
	for i := 0; i < n; i++ {
		kinds := []string{"create", "merge", "merge", "convert", "convert", "clawback", "clawback", "funder", "advance", "advance"}
		if i == 0 {
			kinds = []string{"create", "convert"}
		}
		op := C09KOp{K: rapid.SampledFrom(kinds).Draw(t, "k")}
		op.Acc = rapid.IntRange(0, 1).Draw(t, "acc")
		op.Signer = rapid.SampledFrom([]int{0, 0, 0, 1, 2}).Draw(t, "signer")
		op.To = rapid.IntRange(0, 3).Draw(t, "to")
		op.Back = rapid.SampledFrom([]int64{0, 0, 5, 30, 100, 4000, -20}).Draw(t, "back")
		op.Dt = rapid.SampledFrom([]int64{1, 9, 10, 11, 60, 61, 3600, 100000}).Draw(t, "dt")
		if op.K == "create" || op.K == "merge" || op.K == "convert" {
			total := new(big.Int).Mul(oneISLM, big.NewInt(rapid.SampledFrom([]int64{1, 7, 100, 1001}).Draw(t, "total")))
			switch rapid.IntRange(0, 3).Draw(t, "shape") {
			case 0:
				op.Lockup = genC09KSched(t, "lock", total)
			case 1:
				op.Vesting = genC09KSched(t, "vest", total)
			default:
				op.Lockup, op.Vesting = genC09KSched(t, "lock", total), genC09KSched(t, "vest", total)
			}
		}
		c.Ops = append(c.Ops, op)
	}
	return c
}

// c09kRef is the reference vesting account: absolute release events.
type c09kRef struct {
	exists bool
	funder string
	start  int64
	lock   map[int64]*big.Int
	vest   map[int64]*big.Int
}

func cum(m map[int64]*big.Int, start, t int64) *big.Int {
	s := new(big.Int)
	if t <= start {
		return s
	}
	for k, v := range m {
		if k <= t {
			s.Add(s, v)
		}
	}
	return s
}

func tot(m map[int64]*big.Int) *big.Int {
	s := new(big.Int)
	for _, v := range m {
		s.Add(s, v)
	}
	return s
}

func (r *c09kRef) addGrant(start int64, lock, vest []PeriodJ) {
	total := bi(totalOf(eventsOf(0, lock)), chain.Denom)
	if len(lock) == 0 {
		total = bi(totalOf(eventsOf(0, vest)), chain.Denom)
	}
	add := func(m map[int64]*big.Int, ps []PeriodJ) {
		if len(ps) == 0 { // absent schedule = everything released at the grant's start
			m[start] = new(big.Int).Add(bi2(m, start), total)
			return
		}
		for _, e := range eventsOf(start, ps) {
			m[e.T] = new(big.Int).Add(bi2(m, e.T), bi(e.Amt, chain.Denom))
		}
	}
	if !r.exists {
		r.exists, r.start, r.lock, r.vest = true, start, map[int64]*big.Int{}, map[int64]*big.Int{}
	} else if start < r.start {
		r.start = start
	}
	add(r.lock, lock)
	add(r.vest, vest)
}

func bi2(m map[int64]*big.Int, k int64) *big.Int {
	if v, ok := m[k]; ok {
		return v
	}
	return new(big.Int)
}

// clawback at time t: future vesting events vanish; the lockup is capped to what has vested.
func (r *c09kRef) clawback(t int64) *big.Int {
	vested := cum(r.vest, r.start, t)
	unvested := new(big.Int).Sub(tot(r.vest), vested)
	for k := range r.vest {
		if k > t || t <= r.start {
			delete(r.vest, k)
		}
	}
	// new unlocked(t') = min(old unlocked(t'), vested): rebuild the event list from the capped cumulative function
	var times []int64
	for k := range r.lock {
		times = append(times, k)
	}
	sort.Slice(times, func(i, j int) bool { return times[i] < times[j] })
	newLock := map[int64]*big.Int{}
	prev := new(big.Int)
	running := new(big.Int)
	for _, k := range times {
		running.Add(running, r.lock[k])
		c := new(big.Int).Set(running)
		if c.Cmp(vested) > 0 {
			c.Set(vested)
		}
		if d := new(big.Int).Sub(c, prev); d.Sign() > 0 {
			newLock[k] = d
		}
		prev = c
	}
	r.lock = newLock
	return unvested
}

func runC09K(st *ev.Stats, c C09KCase) string {
	c09kSetup()
	st.Eval()
	fail := func(key, what string) string { return st.Discrepancy(key, what, c) }
	app := c09kNode.App
	ctx, _ := c09kNode.Ctx().CacheContext()
	funders, accs := c09kFunders(), c09kAccs()
	dests := []chain.Account{chain.Acct("c09k-dest"), funders[0], funders[1], funders[2]}
	refs := []*c09kRef{{}, {}}
	exec := func(msg sdk.Msg) error {
		if vb, ok := msg.(interface{ ValidateBasic() error }); ok {
			if err := vb.ValidateBasic(); err != nil {
				return err
			}
		}
		cctx, write := ctx.CacheContext()
		var err error
		func() {
			defer func() {
				if r := recover(); r != nil {
					err = fmt.Errorf("panic: %v", r)
				}
			}()
			_, err = app.MsgServiceRouter().Handler(msg)(cctx, msg)
		}()
		if err == nil {
			write()
		}
		return err
	}
	bal := func(a sdk.AccAddress) *big.Int { return app.BankKeeper.GetBalance(ctx, a, chain.Denom).Amount.BigInt() }
	var merged, partialClaw, funderChanged bool
	for i, op := range c.Ops {
		now := ctx.BlockTime()
		A, S := accs[op.Acc], funders[op.Signer]
		ref := refs[op.Acc]
		switch op.K {
		case "advance":
			ctx = ctx.WithBlockTime(now.Add(time.Duration(op.Dt) * time.Second)).WithBlockHeight(ctx.BlockHeight() + 1)
			continue
		case "create", "merge", "convert":
			start := now.Add(-time.Duration(op.Back) * time.Second)
			var msg sdk.Msg
			if op.K == "convert" {
				msg = vestingtypes.NewMsgConvertIntoVestingAccount(S.Addr, A.Addr, start, toPeriods(op.Lockup), toPeriods(op.Vesting), true, false, nil)
			} else {
				msg = vestingtypes.NewMsgCreateClawbackVestingAccount(S.Addr, A.Addr, start, toPeriods(op.Lockup), toPeriods(op.Vesting), op.K == "merge")
			}
			before := bal(A.Addr)
			err := exec(msg)
			total := bi(totalOf(eventsOf(0, op.Lockup)), chain.Denom)
			if len(op.Lockup) == 0 {
				total = bi(totalOf(eventsOf(0, op.Vesting)), chain.Denom)
			}
			// who may add a grant: anybody creates; only the recorded funder merges
			allowed := !ref.exists && op.K != "merge" || ref.exists && op.K != "create" && ref.funder == S.Addr.String()
			if op.K == "merge" && !ref.exists {
				allowed = true // "merge" on a fresh address simply creates
			}
			if err != nil {
				if allowed && total.Sign() > 0 {
					return fail("valid-grant-refused:"+op.K, fmt.Sprintf("op %d %+v failed: %v", i, op, err))
				}
				continue
			}
			if !allowed {
				return fail("grant-by-non-funder:"+op.K, fmt.Sprintf("op %d %+v succeeded although the signer is not the recorded funder %s", i, op, ref.funder))
			}
			if ref.exists {
				merged = true
			} else {
				ref.funder = S.Addr.String()
			}
			ref.addGrant(start.Unix(), op.Lockup, op.Vesting)
			if d := new(big.Int).Sub(bal(A.Addr), before); d.Cmp(total) != 0 {
				return fail("grant-amount:"+op.K, fmt.Sprintf("op %d: account received %s, grant %s", i, d, total))
			}
		case "funder":
			newF := funders[op.To%len(funders)]
			err := exec(vestingtypes.NewMsgUpdateVestingFunder(S.Addr, newF.Addr, A.Addr))
			if err == nil {
				if !ref.exists || ref.funder != S.Addr.String() {
					return fail("funder-update-by-non-funder", fmt.Sprintf("op %d %+v succeeded; recorded funder %s", i, op, ref.funder))
				}
				ref.funder = newF.Addr.String()
				funderChanged = true
			}
		case "clawback":
			dest := dests[op.To%len(dests)]
			aBefore, dBefore := bal(A.Addr), bal(dest.Addr)
			err := exec(vestingtypes.NewMsgClawback(S.Addr, A.Addr, dest.Addr))
			if err != nil {
				if ref.exists && ref.funder == S.Addr.String() && (len(ref.lock) > 0 || len(ref.vest) > 0) {
					return fail("funder-clawback-refused", fmt.Sprintf("op %d %+v failed: %v", i, op, err))
				}
				if bal(A.Addr).Cmp(aBefore) != 0 {
					return fail("failed-clawback-moved-coins", fmt.Sprintf("op %d %+v", i, op))
				}
				continue
			}
			if !ref.exists || ref.funder != S.Addr.String() {
				return fail("clawback-by-non-funder", fmt.Sprintf("op %d %+v succeeded; recorded funder is %s", i, op, ref.funder))
			}
			vestedBefore := cum(ref.vest, ref.start, now.Unix())
			unvested := ref.clawback(now.Unix())
			gotDest, gotAcc := new(big.Int).Sub(bal(dest.Addr), dBefore), new(big.Int).Sub(aBefore, bal(A.Addr))
			if dest.Addr.Equals(A.Addr) {
				gotDest, gotAcc = unvested, unvested
			}
			if gotDest.Cmp(unvested) != 0 || gotAcc.Cmp(unvested) != 0 {
				return fail("clawback-amount", fmt.Sprintf("op %d %+v at t=%d: destination +%s, account -%s, unvested (reference) %s", i, op, now.Unix(), gotDest, gotAcc, unvested))
			}
			if unvested.Sign() > 0 && vestedBefore.Sign() > 0 {
				partialClaw = true
			}
		}
		// the stored account must describe exactly the reference events
		for k, r := range refs {
			if !r.exists {
				continue
			}
			va, ok := app.AccountKeeper.GetAccount(ctx, accs[k].Addr).(*vestingtypes.ClawbackVestingAccount)
			if !ok {
				return fail("account-type", fmt.Sprintf("op %d: account %d is not a clawback vesting account", i, k))
			}
			if va.FunderAddress != r.funder {
				return fail("funder-field", fmt.Sprintf("op %d: stored funder %s, reference %s", i, va.FunderAddress, r.funder))
			}
			if va.OriginalVesting.AmountOf(chain.Denom).BigInt().Cmp(tot(r.vest)) != 0 && !(tot(r.vest).Sign() == 0 && va.OriginalVesting.IsZero()) {
				return fail("original-vesting:"+op.K, fmt.Sprintf("op %d %+v: stored original vesting %s, reference %s", i, op, va.OriginalVesting, tot(r.vest)))
			}
			var times []int64
			for t := range r.lock {
				times = append(times, t-1, t, t+1)
			}
			for t := range r.vest {
				times = append(times, t-1, t, t+1)
			}
			times = append(times, r.start, r.start+1, now.Unix(), va.EndTime, va.EndTime+1)
			for _, t := range times {
				gv := va.GetVestedCoins(time.Unix(t, 0)).AmountOf(chain.Denom).BigInt()
				gu := va.GetUnlockedCoins(time.Unix(t, 0)).AmountOf(chain.Denom).BigInt()
				wv, wu := cum(r.vest, r.start, t), cum(r.lock, r.start, t)
				if gv.Cmp(wv) != 0 {
					return fail("vested-at:"+op.K, fmt.Sprintf("op %d %+v: account %d vested(%d) = %s, reference union of events %s (start %d)", i, op, k, t, gv, wv, r.start))
				}
				if gu.Cmp(wu) != 0 {
					return fail("unlocked-at:"+op.K, fmt.Sprintf("op %d %+v: account %d unlocked(%d) = %s, reference %s (start %d)", i, op, k, t, gu, wu, r.start))
				}
			}
			if err := va.Validate(); err != nil {
				key := "invalid-account:" + op.K
				if va.EndTime == va.GetStartTime() {
					key = "clawback:validate-rejects-end-eq-start"
				}
				if msg := fail(key, fmt.Sprintf("op %d %+v: stored account fails Validate(): %v", i, op, err)); msg != "" {
					return msg
				}
			}
		}
	}
	if merged {
		st.Class("merged-grant")
	}
	if partialClaw {
		st.Class("partial-clawback")
	}
	if funderChanged {
		st.Class("funder-changed")
	}
	if merged && partialClaw || funderChanged && partialClaw {
		st.NonTrivial(c)
	}
	return ""
}

func init() {
	replayers["TestC09_Keeper"] = func(st *ev.Stats, raw json.RawMessage) string {
		var c C09KCase
		must(json.Unmarshal(raw, &c))
		return runC09K(st, c)
	}
}

func TestC09_Keeper(t *testing.T) {
	st := ev.New("C09", "TestC09_Keeper", "history of 2-10 create / merge (both message types, grant starting before, at or after the account's start) / clawback (by funder and by others, to various destinations) / update-funder / time steps over two accounts and three funders; non-trivial = a partial clawback (vested > 0 and unvested > 0) after a merge or after a funder change")
	runCorpus(t, st)
	runRapid(t, st, 1500, 100000, func(rt *rapid.T) {
		if msg := runC09K(st, genC09K(rt)); msg != "" {
			rt.Fatalf("%s", msg)
		}
	})
}
