package props

// C09 — vesting schedule arithmetic is exact; clawback takes only unvested (pure-function part).
// Oracle: the absolute-time reference step function of sched_gen_test.go.

import (
	"encoding/json"
	"fmt"
	"math/big"
	"testing"
	"time"

	sdk "github.com/cosmos/cosmos-sdk/types"
	authtypes "github.com/cosmos/cosmos-sdk/x/auth/types"
	sdkvesting "github.com/cosmos/cosmos-sdk/x/auth/vesting/types"
	"pgregory.net/rapid"

	"verif/chain"
	"verif/ev"

	vestingtypes "github.com/haqq-network/haqq/x/vesting/types"
)

// ---------------------------------------------------------------------------------------------------------
// ReadSchedule / ReadPastPeriodCount / account identities

type C09ReadCase struct {
	Start    int64     `json:"start"`
	EndExtra int64     `json:"end_extra"` // account end time = start + max(total lengths) + EndExtra
	Lockup   []PeriodJ `json:"lockup"`
	Vesting  []PeriodJ `json:"vesting"`
	Extra    []int64   `json:"extra_times"` // additional read times relative to start
}

// splitTotal re-partitions the total of src into a second period list with the same per-denom totals.
func splitTotal(t *rapid.T, label string, src []PeriodJ, zeroLen bool) []PeriodJ {
	total := totalOf(eventsOf(0, src))
	n := rapid.IntRange(1, 6).Draw(t, label+"-n")
	out := make([]PeriodJ, n)
	remaining := total.clone()
	for i := 0; i < n; i++ {
		for {
			out[i].Len = rapid.SampledFrom(lengthPool).Draw(t, label+"-len")
			if out[i].Len > 0 || zeroLen {
				break
			}
			out[i].Len = 1
			break
		}
		for _, d := range schedDenoms {
			rem := bi(remaining, d)
			if rem.Sign() == 0 {
				continue
			}
			take := new(big.Int).Set(rem)
			if i < n-1 {
				// take num/8 of what remains
				num := int64(rapid.IntRange(0, 8).Draw(t, label+"-frac"))
				take.Mul(take, big.NewInt(num))
				take.Quo(take, big.NewInt(8))
			}
			if take.Sign() > 0 {
				out[i].Amt = append(out[i].Amt, CoinJ{d, take.String()})
				remaining[d] = new(big.Int).Sub(rem, take)
			}
		}
	}
	return out
}

func genC09Read(t *rapid.T) C09ReadCase {
	c := C09ReadCase{}
	c.Start = rapid.SampledFrom([]int64{0, 1, 1000, 1700000000, 1740000000}).Draw(t, "start")
	nd := rapid.IntRange(1, 3).Draw(t, "ndenoms")
	c.Vesting = genPeriods(t, "vest", 1, 8, true, nd, true)
	c.Lockup = splitTotal(t, "lock", c.Vesting, true)
	c.EndExtra = rapid.SampledFrom([]int64{0, 0, 0, 1, 100}).Draw(t, "endextra")
	k := rapid.IntRange(0, 3).Draw(t, "nextra")
	for i := 0; i < k; i++ {
		c.Extra = append(c.Extra, rapid.Int64Range(-5, 200000000).Draw(t, "extra"))
	}
	return c
}

func totalLen(ps []PeriodJ) int64 {
	var s int64
	for _, p := range ps {
		s += p.Len
	}
	return s
}

func runC09Read(st *ev.Stats, c C09ReadCase) string {
	st.Eval()
	fail := func(key, what string) string { return st.Discrepancy(key, what, c) }
	lev, vev := eventsOf(c.Start, c.Lockup), eventsOf(c.Start, c.Vesting)
	total := totalOf(vev)
	if !total.eq(totalOf(lev)) {
		panic("generator: lockup and vesting totals differ")
	}
	end := c.Start + max64(totalLen(c.Lockup), totalLen(c.Vesting)) + c.EndExtra
	if end == c.Start {
		end = c.Start + 1 // every stored account has start < end (Validate); all-zero-length lists get the minimal end
	}
	lp, vp := toPeriods(c.Lockup), toPeriods(c.Vesting)
	orig := refToSDK(total)
	va := vestingtypes.ClawbackVestingAccount{
		BaseVestingAccount: &sdkvesting.BaseVestingAccount{BaseAccount: authtypes.NewBaseAccountWithAddress(chain.Acct("c09").Addr), OriginalVesting: orig, EndTime: end},
		FunderAddress:      chain.Acct("c09f").Addr.String(), StartTime: time.Unix(c.Start, 0).UTC(), LockupPeriods: lp, VestingPeriods: vp,
	}
	extra := []int64{c.Start, end}
	for _, x := range c.Extra {
		extra = append(extra, c.Start+x)
	}
	var prevV, prevU refCoins
	simultaneous, zeroLen := false, false
	seen := map[int64]bool{}
	for _, e := range append(append([]refEvent{}, lev...), vev...) {
		_ = e
	}
	for _, l := range [][]refEvent{lev, vev} {
		s := map[int64]bool{}
		for _, e := range l {
			if s[e.T] {
				simultaneous = true
			}
			s[e.T] = true
			seen[e.T] = true
		}
	}
	for _, p := range append(append([]PeriodJ{}, c.Lockup...), c.Vesting...) {
		if p.Len == 0 {
			zeroLen = true
		}
	}
	for _, t := range probeTimes(extra, lev, vev) {
		for name, pair := range map[string]struct {
			ps  sdkvesting.Periods
			evs []refEvent
		}{"vesting": {vp, vev}, "lockup": {lp, lev}} {
			got := vestingtypes.ReadSchedule(c.Start, end, pair.ps, orig, t)
			want := stepAt(c.Start, pair.evs, t)
			if t >= end {
				want = total
			}
			if !eqSDK(want, got) {
				return fail("read-schedule:"+name, fmt.Sprintf("ReadSchedule(%s) at t=%d (start %d end %d) = %s, reference %s", name, t, c.Start, end, got, want))
			}
			if got.IsAnyNegative() {
				return fail("negative:"+name, fmt.Sprintf("negative amount at t=%d: %s", t, got))
			}
			if name == "vesting" {
				cnt := vestingtypes.ReadPastPeriodCount(c.Start, end, pair.ps, t)
				wantCnt := 0
				if t > c.Start {
					for _, e := range pair.evs {
						if e.T <= t {
							wantCnt++
						}
					}
				}
				if t >= end {
					wantCnt = len(pair.ps)
				}
				if cnt != wantCnt {
					return fail("past-period-count", fmt.Sprintf("ReadPastPeriodCount at t=%d = %d, reference %d", t, cnt, wantCnt))
				}
			}
		}
		bt := time.Unix(t, 0)
		vested, unvested := refOf(va.GetVestedCoins(bt)), refOf(va.GetVestingCoins(bt))
		unlocked, locked := refOf(va.GetUnlockedCoins(bt)), refOf(va.GetLockedUpCoins(bt))
		if !vested.add(unvested).eq(total) || vested.anyNegative() || unvested.anyNegative() {
			return fail("identity:vested+unvested", fmt.Sprintf("t=%d vested %s + unvested %s != original %s", t, vested, unvested, total))
		}
		if !locked.add(unlocked).eq(total) || locked.anyNegative() || unlocked.anyNegative() {
			return fail("identity:locked+unlocked", fmt.Sprintf("t=%d locked %s + unlocked %s != original %s", t, locked, unlocked, total))
		}
		// monotone in t
		if prevV != nil {
			for d, v := range prevV {
				if bi(vested, d).Cmp(v) < 0 {
					return fail("monotone:vesting", fmt.Sprintf("vested decreased at t=%d", t))
				}
			}
			for d, v := range prevU {
				if bi(unlocked, d).Cmp(v) < 0 {
					return fail("monotone:lockup", fmt.Sprintf("unlocked decreased at t=%d", t))
				}
			}
		}
		prevV, prevU = vested, unlocked
		if t <= c.Start && !(vested.isZero() && unlocked.isZero()) {
			return fail("zero-up-to-start", fmt.Sprintf("t=%d <= start but vested %s unlocked %s", t, vested, unlocked))
		}
		if t >= end && !(vested.eq(total) && unlocked.eq(total)) {
			return fail("total-from-end", fmt.Sprintf("t=%d >= end but vested %s unlocked %s total %s", t, vested, unlocked, total))
		}
		// LockedCoins without delegations = max(original - unlockedVested, unvested) = original - min(unlocked, vested)
		lc := refOf(va.LockedCoins(bt))
		wantLC := total.sub(stepAtOrTotal(c.Start, end, lev, total, t).min(stepAtOrTotal(c.Start, end, vev, total, t)))
		if !lc.eq(wantLC) {
			return fail("locked-coins", fmt.Sprintf("t=%d LockedCoins %s reference %s", t, lc, wantLC))
		}
	}
	if simultaneous {
		st.Class("simultaneous-events")
	}
	if zeroLen {
		st.Class("zero-length-period")
	}
	if len(refToSDK(total)) > 1 {
		st.Class("multi-denom")
	}
	if simultaneous || zeroLen {
		st.NonTrivial(c)
	}
	return ""
}

func stepAtOrTotal(start, end int64, evs []refEvent, total refCoins, t int64) refCoins {
	if t >= end {
		return total
	}
	return stepAt(start, evs, t)
}

func max64(a, b int64) int64 {
	if a > b {
		return a
	}
	return b
}

func min64(a, b int64) int64 {
	if a < b {
		return a
	}
	return b
}

// ---------------------------------------------------------------------------------------------------------
// DisjunctPeriods / ConjunctPeriods

type C09PairCase struct {
	A SchedJ `json:"a"`
	B SchedJ `json:"b"`
}

func genC09Pair(t *rapid.T) C09PairCase {
	c := C09PairCase{}
	base := rapid.SampledFrom([]int64{0, 1000, 1740000000}).Draw(t, "base")
	c.A.Start = base + rapid.SampledFrom([]int64{0, 0, 1, 5, 60, 86400, 31536000}).Draw(t, "offA")
	c.B.Start = base + rapid.SampledFrom([]int64{0, 0, 1, 5, 60, 86400, 31536000}).Draw(t, "offB")
	nd := rapid.IntRange(1, 3).Draw(t, "ndenoms")
	c.A.Periods = genPeriods(t, "A", 0, 8, true, nd, true)
	c.B.Periods = genPeriods(t, "B", 0, 8, true, nd, true)
	return c
}

func pairClasses(st *ev.Stats, c C09PairCase) bool {
	ea, eb := eventsOf(c.A.Start, c.A.Periods), eventsOf(c.B.Start, c.B.Periods)
	sim := false
	ta := map[int64]bool{}
	for _, e := range ea {
		ta[e.T] = true
	}
	for _, e := range eb {
		if ta[e.T] {
			sim = true
		}
	}
	zero := false
	for _, p := range append(append([]PeriodJ{}, c.A.Periods...), c.B.Periods...) {
		if p.Len == 0 {
			zero = true
		}
	}
	diff := c.A.Start != c.B.Start
	if sim {
		st.Class("simultaneous-events")
	}
	if zero {
		st.Class("zero-length-period")
	}
	if diff {
		st.Class("different-starts")
	}
	return (sim || zero || diff) && len(ea) > 0 && len(eb) > 0
}

func runC09Disjunct(st *ev.Stats, c C09PairCase) string {
	st.Eval()
	fail := func(key, what string) string { return st.Discrepancy(key, what, c) }
	ea, eb := eventsOf(c.A.Start, c.A.Periods), eventsOf(c.B.Start, c.B.Periods)
	pa, pb := toPeriods(c.A.Periods), toPeriods(c.B.Periods)
	start, end, periods := vestingtypes.DisjunctPeriods(c.A.Start, c.B.Start, pa, pb)
	// inputs must not be mutated
	if fmt.Sprint(fromPeriods(pa)) != fmt.Sprint(fromPeriods(toPeriods(c.A.Periods))) || fmt.Sprint(fromPeriods(pb)) != fmt.Sprint(fromPeriods(toPeriods(c.B.Periods))) {
		return fail("disjunct:mutates-input", "DisjunctPeriods mutated its inputs")
	}
	if start != min64(c.A.Start, c.B.Start) {
		return fail("disjunct:start", fmt.Sprintf("start %d, want %d", start, min64(c.A.Start, c.B.Start)))
	}
	got := eventsOf(start, fromPeriods(periods))
	for _, p := range periods {
		if p.Length < 0 {
			return fail("disjunct:negative-length", fmt.Sprintf("negative period length %d", p.Length))
		}
	}
	gm, wm := eventMap(got), eventMap(ea, eb)
	if len(gm) != len(wm) {
		return fail("disjunct:event-union", fmt.Sprintf("merged schedule has events at %d distinct times, union has %d", len(gm), len(wm)))
	}
	for t, w := range wm {
		g, ok := gm[t]
		if !ok || !g.eq(w) {
			return fail("disjunct:event-union", fmt.Sprintf("event at t=%d: merged %v, union %s", t, g, w))
		}
	}
	if want := lastTime(start, append(append([]refEvent{}, ea...), eb...)); end != want {
		return fail("disjunct:end", fmt.Sprintf("end %d, want %d", end, want))
	}
	total := refToSDK(totalOf(got))
	endA, endB := lastTime(c.A.Start, ea), lastTime(c.B.Start, eb)
	totA, totB := refToSDK(totalOf(ea)), refToSDK(totalOf(eb))
	for _, t := range probeTimes([]int64{c.A.Start, c.B.Start, end}, ea, eb) {
		if t <= max64(c.A.Start, c.B.Start) {
			continue
		}
		g := vestingtypes.ReadSchedule(start, end, periods, total, t)
		a := vestingtypes.ReadSchedule(c.A.Start, endA, pa, totA, t)
		b := vestingtypes.ReadSchedule(c.B.Start, endB, pb, totB, t)
		want := stepAt(c.A.Start, ea, t).add(stepAt(c.B.Start, eb, t))
		if !eqSDK(want, g) || !eqSDK(want, a.Add(b...)) {
			return fail("disjunct:sum", fmt.Sprintf("t=%d merged releases %s, A %s + B %s, reference %s", t, g, a, b, want))
		}
	}
	if pairClasses(st, c) {
		st.NonTrivial(c)
	}
	return ""
}

func runC09Conjunct(st *ev.Stats, c C09PairCase) string {
	st.Eval()
	fail := func(key, what string) string { return st.Discrepancy(key, what, c) }
	ea, eb := eventsOf(c.A.Start, c.A.Periods), eventsOf(c.B.Start, c.B.Periods)
	pa, pb := toPeriods(c.A.Periods), toPeriods(c.B.Periods)
	start, end, periods := vestingtypes.ConjunctPeriods(c.A.Start, c.B.Start, pa, pb)
	if start != min64(c.A.Start, c.B.Start) {
		return fail("conjunct:start", fmt.Sprintf("start %d", start))
	}
	got := eventsOf(start, fromPeriods(periods))
	for _, p := range periods {
		if p.Length < 0 {
			return fail("conjunct:negative-length", fmt.Sprintf("negative period length %d", p.Length))
		}
		if p.Amount.IsAnyNegative() {
			return fail("conjunct:negative-amount", p.Amount.String())
		}
	}
	total := refToSDK(totalOf(got))
	if !totalOf(got).eq(totalOf(ea).min(totalOf(eb))) {
		return fail("conjunct:total", fmt.Sprintf("total %s, want min(%s,%s)", totalOf(got), totalOf(ea), totalOf(eb)))
	}
	if end < start || end != lastTime(start, got) {
		return fail("conjunct:end", fmt.Sprintf("end %d but last event %d", end, lastTime(start, got)))
	}
	for _, t := range probeTimes([]int64{c.A.Start, c.B.Start, end}, ea, eb, got) {
		// with different start times an event sitting exactly on the later start is "not started" for the single
		// schedule; the statement is about instants after both have started
		if t <= max64(c.A.Start, c.B.Start) && !(c.A.Start == c.B.Start) {
			if t <= start {
				if g := vestingtypes.ReadSchedule(start, end, periods, total, t); !g.IsZero() {
					return fail("conjunct:before-start", fmt.Sprintf("t=%d releases %s before start", t, g))
				}
			}
			continue
		}
		g := vestingtypes.ReadSchedule(start, end, periods, total, t)
		want := stepAt(c.A.Start, ea, t).min(stepAt(c.B.Start, eb, t))
		if !eqSDK(want, g) {
			return fail("conjunct:min", fmt.Sprintf("t=%d capped schedule releases %s, reference min %s", t, g, want))
		}
	}
	if pairClasses(st, c) {
		st.NonTrivial(c)
	}
	return ""
}

// ---------------------------------------------------------------------------------------------------------
// ComputeClawback

type C09ClawCase struct {
	Read C09ReadCase `json:"acc"`
	At   int64       `json:"at"`   // clawback time relative to start
	Snap bool        `json:"snap"` // snap At to an event time
}

func genC09Claw(t *rapid.T) C09ClawCase {
	c := C09ClawCase{}
	c.Read.Start = rapid.SampledFrom([]int64{0, 1000, 1740000000}).Draw(t, "start")
	nd := rapid.IntRange(1, 2).Draw(t, "ndenoms")
	c.Read.Vesting = genPeriods(t, "vest", 1, 7, true, nd, false)
	c.Read.Lockup = splitTotal(t, "lock", c.Read.Vesting, true)
	c.Read.EndExtra = 0
	tl := max64(totalLen(c.Read.Lockup), totalLen(c.Read.Vesting))
	c.At = rapid.Int64Range(-2, tl+2).Draw(t, "at")
	if rapid.Bool().Draw(t, "snap") {
		evs := eventsOf(0, c.Read.Vesting)
		if rapid.Bool().Draw(t, "snaplock") {
			evs = eventsOf(0, c.Read.Lockup)
		}
		e := evs[rapid.IntRange(0, len(evs)-1).Draw(t, "snapidx")]
		c.At = e.T + rapid.Int64Range(-1, 1).Draw(t, "snapoff")
	}
	return c
}

func runC09Claw(st *ev.Stats, c C09ClawCase) string {
	st.Eval()
	fail := func(key, what string) string { return st.Discrepancy(key, what, c) }
	r := c.Read
	lev, vev := eventsOf(r.Start, r.Lockup), eventsOf(r.Start, r.Vesting)
	total := totalOf(vev)
	end := r.Start + max64(totalLen(r.Lockup), totalLen(r.Vesting))
	if end == r.Start {
		end = r.Start + 1 // an account must have start < end to be valid
	}
	va := vestingtypes.ClawbackVestingAccount{
		BaseVestingAccount: &sdkvesting.BaseVestingAccount{BaseAccount: authtypes.NewBaseAccountWithAddress(chain.Acct("c09").Addr), OriginalVesting: refToSDK(total), EndTime: end},
		FunderAddress:      chain.Acct("c09f").Addr.String(), StartTime: time.Unix(r.Start, 0).UTC(), LockupPeriods: toPeriods(r.Lockup), VestingPeriods: toPeriods(r.Vesting),
	}
	if err := va.Validate(); err != nil {
		panic("generator produced an invalid account: " + err.Error())
	}
	at := r.Start + c.At
	vestedAt := stepAtOrTotal(r.Start, end, vev, total, at)
	unvestedAt := total.sub(vestedAt)
	before := va // value copy; slices shared, ComputeClawback must not mutate them
	beforeL, beforeV := fmt.Sprint(fromPeriods(va.LockupPeriods)), fmt.Sprint(fromPeriods(va.VestingPeriods))
	na, clawed := va.ComputeClawback(at)
	if fmt.Sprint(fromPeriods(before.LockupPeriods)) != beforeL || fmt.Sprint(fromPeriods(before.VestingPeriods)) != beforeV {
		return fail("clawback:mutates-input", "ComputeClawback mutated the periods of the receiver")
	}
	if !eqSDK(unvestedAt, clawed) {
		return fail("clawback:amount", fmt.Sprintf("clawed %s, unvested at t=%d is %s", clawed, at, unvestedAt))
	}
	if !eqSDK(vestedAt, na.OriginalVesting) {
		return fail("clawback:original-vesting", fmt.Sprintf("new original vesting %s, vested %s", na.OriginalVesting, vestedAt))
	}
	// semantic validity, independent of Validate(): sums equal the original vesting, schedules end by EndTime
	nl, nv := eventsOf(r.Start, fromPeriods(na.LockupPeriods)), eventsOf(r.Start, fromPeriods(na.VestingPeriods))
	if !totalOf(nl).eq(vestedAt) || !totalOf(nv).eq(vestedAt) {
		return fail("clawback:invalid-account:sums", fmt.Sprintf("lockup sum %s vesting sum %s original %s", totalOf(nl), totalOf(nv), vestedAt))
	}
	if lastTime(r.Start, nl) > na.EndTime || lastTime(r.Start, nv) > na.EndTime || na.EndTime < r.Start || na.GetStartTime() != r.Start {
		return fail("clawback:invalid-account:end", fmt.Sprintf("end %d start %d lockup end %d vesting end %d", na.EndTime, na.GetStartTime(), lastTime(r.Start, nl), lastTime(r.Start, nv)))
	}
	if err := na.Validate(); err != nil {
		key := "clawback:invalid-account:validate"
		if na.EndTime == r.Start {
			// every remaining event sits on the start instant (in particular: everything was clawed back)
			key = "clawback:validate-rejects-end-eq-start"
		}
		if msg := fail(key, fmt.Sprintf("account after clawback at t=%d fails Validate(): %v", at, err)); msg != "" {
			return msg
		}
	}
	// every vested coin is kept and still subject to its lockup: new unlocked(t') = min(old unlocked(t'), vested(at))
	for _, t := range probeTimes([]int64{r.Start, end, at, na.EndTime}, lev, vev) {
		bt := time.Unix(t, 0)
		wantU := stepAtOrTotal(r.Start, end, lev, total, t).min(vestedAt)
		if g := na.GetUnlockedCoins(bt); !eqSDK(wantU, g) {
			return fail("clawback:lockup-cap", fmt.Sprintf("t'=%d unlocked after clawback %s, reference min(old unlocked, vested) %s", t, g, wantU))
		}
		wantV := stepAtOrTotal(r.Start, end, vev, total, min64(t, at))
		if t > at {
			wantV = vestedAt
		}
		if g := na.GetVestedCoins(bt); !eqSDK(wantV, g) {
			return fail("clawback:vested-kept", fmt.Sprintf("t'=%d vested after clawback %s, reference %s", t, g, wantV))
		}
		if na.LockedCoins(bt).IsAnyNegative() {
			return fail("clawback:negative", "negative locked coins")
		}
	}
	if !unvestedAt.isZero() && !vestedAt.isZero() {
		st.Class("partial-clawback")
		st.NonTrivial(c)
	}
	if vestedAt.isZero() {
		st.Class("claws-everything")
	}
	if unvestedAt.isZero() {
		st.Class("nothing-to-claw")
	}
	return ""
}

func init() {
	replayers["TestC09_ReadSchedule"] = func(st *ev.Stats, raw json.RawMessage) string {
		var c C09ReadCase
		must(json.Unmarshal(raw, &c))
		return runC09Read(st, c)
	}
	replayers["TestC09_Disjunct"] = func(st *ev.Stats, raw json.RawMessage) string {
		var c C09PairCase
		must(json.Unmarshal(raw, &c))
		return runC09Disjunct(st, c)
	}
	replayers["TestC09_Conjunct"] = func(st *ev.Stats, raw json.RawMessage) string {
		var c C09PairCase
		must(json.Unmarshal(raw, &c))
		return runC09Conjunct(st, c)
	}
	replayers["TestC09_ComputeClawback"] = func(st *ev.Stats, raw json.RawMessage) string {
		var c C09ClawCase
		must(json.Unmarshal(raw, &c))
		return runC09Claw(st, c)
	}
}

func TestC09_ReadSchedule(t *testing.T) {
	st := ev.New("C09", "TestC09_ReadSchedule", "account with generated lockup+vesting period lists read at every event time ±1, start, end; non-trivial = has a zero-length period or two events of one schedule at the same instant; distinct by case hash")
	runCorpus(t, st)
	runRapid(t, st, 6000, 400000, func(rt *rapid.T) {
		if msg := runC09Read(st, genC09Read(rt)); msg != "" {
			rt.Fatalf("%s", msg)
		}
	})
}

func TestC09_Disjunct(t *testing.T) {
	st := ev.New("C09", "TestC09_Disjunct", "pair of period lists merged with DisjunctPeriods; non-trivial = both non-empty and (simultaneous events across the lists or a zero-length period or different start times)")
	runCorpus(t, st)
	runRapid(t, st, 6000, 600000, func(rt *rapid.T) {
		if msg := runC09Disjunct(st, genC09Pair(rt)); msg != "" {
			rt.Fatalf("%s", msg)
		}
	})
}

func TestC09_Conjunct(t *testing.T) {
	st := ev.New("C09", "TestC09_Conjunct", "pair of period lists capped with ConjunctPeriods; non-trivial as for Disjunct")
	runCorpus(t, st)
	runRapid(t, st, 6000, 600000, func(rt *rapid.T) {
		if msg := runC09Conjunct(st, genC09Pair(rt)); msg != "" {
			rt.Fatalf("%s", msg)
		}
	})
}

func TestC09_ComputeClawback(t *testing.T) {
	st := ev.New("C09", "TestC09_ComputeClawback", "valid account and a clawback time (snapped to event times ±1 half of the time); non-trivial = both vested and unvested parts are non-zero at the clawback time")
	runCorpus(t, st)
	runRapid(t, st, 6000, 400000, func(rt *rapid.T) {
		if msg := runC09Claw(st, genC09Claw(rt)); msg != "" {
			rt.Fatalf("%s", msg)
		}
	})
}

var _ = sdk.Coins{}

// ---------------------------------------------------------------------------------------------------------
// AlignSchedules: both lists are re-based on the earlier start without moving any release event

func runC09Align(st *ev.Stats, c C09PairCase) string {
	st.Eval()
	fail := func(key, what string) string { return st.Discrepancy(key, what, c) }
	ea, eb := eventsOf(c.A.Start, c.A.Periods), eventsOf(c.B.Start, c.B.Periods)
	pa, pb := toPeriods(c.A.Periods), toPeriods(c.B.Periods)
	start, end := vestingtypes.AlignSchedules(c.A.Start, c.B.Start, pa, pb)
	if start != min64(c.A.Start, c.B.Start) {
		return fail("align:start", fmt.Sprintf("start %d, want %d", start, min64(c.A.Start, c.B.Start)))
	}
	// (an empty list ends at the common start)
	if want := max64(lastTime(start, ea), lastTime(start, eb)); end != want {
		return fail("align:end", fmt.Sprintf("end %d, want %d", end, want))
	}
	for i, x := range []struct {
		name string
		orig []refEvent
		got  sdkvesting.Periods
	}{{"A", ea, pa}, {"B", eb, pb}} {
		_ = i
		gm, wm := eventMap(eventsOf(start, fromPeriods(x.got))), eventMap(x.orig)
		if len(gm) != len(wm) {
			return fail("align:events-moved", fmt.Sprintf("schedule %s: %d distinct release times after alignment, %d before", x.name, len(gm), len(wm)))
		}
		for t, w := range wm {
			if g, ok := gm[t]; !ok || !g.eq(w) {
				return fail("align:events-moved", fmt.Sprintf("schedule %s: release at t=%d is %v after alignment, was %s", x.name, t, g, w))
			}
		}
		total := refToSDK(totalOf(x.orig))
		for _, t := range probeTimes([]int64{c.A.Start, c.B.Start, end}, ea, eb) {
			if end == start {
				break // all events at the common start: "zero up to the start" and "total from the end on" collide
			}
			if g, w := vestingtypes.ReadSchedule(start, end, x.got, total, t), stepAtOrTotal(start, end, x.orig, totalOf(x.orig), t); !eqSDK(w, g) {
				return fail("align:read", fmt.Sprintf("schedule %s read at t=%d after alignment: %s, before: %s", x.name, t, g, w))
			}
		}
	}
	if c.A.Start != c.B.Start && len(ea) > 0 && len(eb) > 0 {
		if c.A.Start > c.B.Start {
			st.Class("first-starts-later")
		} else {
			st.Class("second-starts-later")
		}
		st.NonTrivial(c)
	}
	return ""
}

func init() {
	replayers["TestC09_Align"] = func(st *ev.Stats, raw json.RawMessage) string {
		var c C09PairCase
		must(json.Unmarshal(raw, &c))
		return runC09Align(st, c)
	}
}

func TestC09_Align(t *testing.T) {
	st := ev.New("C09", "TestC09_Align", "pair of period lists with their own start times re-based with AlignSchedules; non-trivial = both non-empty and different start times")
	runCorpus(t, st)
	runRapid(t, st, 4000, 300000, func(rt *rapid.T) {
		if msg := runC09Align(st, genC09Pair(rt)); msg != "" {
			rt.Fatalf("%s", msg)
		}
	})
}
