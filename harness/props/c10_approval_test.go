package props

// C10, tokens that announce a secret allowance in unusual ways: an ERC20-origin token with truthful balances whose
// transfer(), once armed, also lets a thief spend the recipient's tokens and reports that with an Approval-signature
// event carrying 1, 2, 3 (standard) or 4 topics. Conversions by message must keep the pair backed whatever the thief
// does afterwards.

import (
	"encoding/json"
	"fmt"
	"math/big"
	"testing"

	sdkmath "cosmossdk.io/math"
	sdk "github.com/cosmos/cosmos-sdk/types"
	authtypes "github.com/cosmos/cosmos-sdk/x/auth/types"
	"github.com/ethereum/go-ethereum/common"
	"github.com/ethereum/go-ethereum/core/vm"
	"pgregory.net/rapid"

	"github.com/haqq-network/haqq/contracts"
	erc20types "github.com/haqq-network/haqq/x/erc20/types"
	"github.com/haqq-network/haqq/x/evm/statedb"

	"verif/chain"
	"verif/ev"
	"verif/evmasm"
	"verif/txb"
)

var (
	c10SneakyAddr  = common.HexToAddress("0xFa4e000000000000000000000000000000000004")
	c10SneakyCfg   = common.HexToHash("0x8000000000000000000000000000000000000000000000000000000000000001")
	c10SneakyThief = common.HexToAddress("0x4dC6ac40Af078661fc43823086E1513635Eeab14")
	c10FlagBase    = new(big.Int).Lsh(big.NewInt(1), 200)
)

// c10SneakyRuntime: balanceOf(x) = slot x. transfer(to, n) moves n and emits Transfer; if the cfg slot holds k > 0 it
// also sets the allowance flag of `to` (slot to + 2^200) and emits the Approval signature as LOGk (k = 1..4).
// 0x0a11ce05 drain(from, n): if from's flag is set, moves n from `from` to the caller (the thief's transferFrom).
func c10SneakyRuntime() []byte {
	transferSig := common.FromHex("0xddf252ad1be2c89b69c2b068fc378daa952ba7f163c4a11628f55a4df523b3ef")
	approvalSig := common.FromHex("0x8c5be1e5ebec7d5bd14f71427d1e84f3dd0314c0f7b2291e5b200ac8c7c3b925")
	maxU := new(big.Int).Sub(new(big.Int).Lsh(big.NewInt(1), 256), big.NewInt(1))
	a := evmasm.New()
	sel := func(hex string, label string) {
		a.Push(0).Op(vm.CALLDATALOAD).Push(224).Op(vm.SHR)
		a.PushBytes(common.FromHex(hex)).Op(vm.EQ)
		a.Jumpi(label)
	}
	sel("0x06fdde03", "str")
	sel("0x95d89b41", "str")
	sel("0x313ce567", "dec")
	sel("0x70a08231", "bal")
	sel("0x18160ddd", "sup")
	sel("0xa9059cbb", "transfer")
	sel("0x0a11ce05", "drain")
	a.Label("true")
	a.Push(1).Push(0).Op(vm.MSTORE).Push(32).Push(0).Op(vm.RETURN)
	a.Label("fail")
	a.Push(0).Push(0).Op(vm.REVERT)

	a.Label("transfer")
	a.Push(36).Op(vm.CALLDATALOAD)             // n
	a.Op(vm.DUP1, vm.CALLER, vm.SLOAD, vm.LT)  // bal < n, n
	a.Jumpi("fail")                            // n
	a.Op(vm.DUP1, vm.CALLER, vm.SLOAD, vm.SUB) // bal-n, n
	a.Op(vm.CALLER, vm.SSTORE)                 // n
	a.Push(4).Op(vm.CALLDATALOAD)              // to, n
	a.Op(vm.DUP1, vm.SLOAD, vm.DUP3, vm.ADD, vm.SWAP1, vm.SSTORE)
	a.Op(vm.POP)
	a.Push(36).Op(vm.CALLDATALOAD).Push(0).Op(vm.MSTORE)
	a.Push(4).Op(vm.CALLDATALOAD).Op(vm.CALLER).PushBytes(transferSig).Push(32).Push(0).Op(vm.LOG3)
	a.PushBytes(c10SneakyCfg.Bytes()).Op(vm.SLOAD) // k
	a.Op(vm.DUP1, vm.ISZERO)
	a.Jumpi("done")
	// allowance flag of the recipient
	a.Push(1).Push(4).Op(vm.CALLDATALOAD).PushBig(c10FlagBase).Op(vm.ADD, vm.SSTORE)
	for k := 1; k <= 4; k++ {
		a.Op(vm.DUP1).Push(uint64(k)).Op(vm.EQ)
		a.Jumpi(fmt.Sprintf("k%d", k))
	}
	a.Jump("done")
	to := func() { a.Push(4).Op(vm.CALLDATALOAD) }
	a.Label("k1")
	to()
	a.Push(0).Op(vm.MSTORE)
	a.PushAddr(c10SneakyThief).Push(32).Op(vm.MSTORE)
	a.PushBig(maxU).Push(64).Op(vm.MSTORE)
	a.PushBytes(approvalSig).Push(96).Push(0).Op(vm.LOG1)
	a.Jump("done")
	a.Label("k2")
	a.PushAddr(c10SneakyThief).Push(0).Op(vm.MSTORE)
	a.PushBig(maxU).Push(32).Op(vm.MSTORE)
	to()
	a.PushBytes(approvalSig).Push(64).Push(0).Op(vm.LOG2)
	a.Jump("done")
	a.Label("k3")
	a.PushBig(maxU).Push(0).Op(vm.MSTORE)
	a.PushAddr(c10SneakyThief)
	to()
	a.PushBytes(approvalSig).Push(32).Push(0).Op(vm.LOG3)
	a.Jump("done")
	a.Label("k4")
	a.PushBig(maxU)
	a.PushAddr(c10SneakyThief)
	to()
	a.PushBytes(approvalSig).Push(0).Push(0).Op(vm.LOG4)
	a.Label("done")
	a.Op(vm.POP)
	a.Jump("true")

	a.Label("drain")
	a.Push(4).Op(vm.CALLDATALOAD).PushBig(c10FlagBase).Op(vm.ADD, vm.SLOAD, vm.ISZERO)
	a.Jumpi("fail")
	a.Push(36).Op(vm.CALLDATALOAD)                                   // n
	a.Op(vm.DUP1).Push(4).Op(vm.CALLDATALOAD, vm.SLOAD, vm.LT)       // bal[from] < n, n
	a.Jumpi("fail")                                                  // n
	a.Op(vm.DUP1).Push(4).Op(vm.CALLDATALOAD, vm.SLOAD, vm.SUB)      // bal-n, n
	a.Push(4).Op(vm.CALLDATALOAD, vm.SSTORE)                         // n
	a.Op(vm.DUP1, vm.CALLER, vm.SLOAD, vm.ADD, vm.CALLER, vm.SSTORE) // n
	a.Push(0).Op(vm.MSTORE)
	a.Op(vm.CALLER).Push(4).Op(vm.CALLDATALOAD).PushBytes(transferSig).Push(32).Push(0).Op(vm.LOG3)
	a.Jump("true")

	a.Label("str")
	a.Push(32).Push(0).Op(vm.MSTORE)
	a.Push(4).Push(32).Op(vm.MSTORE)
	a.PushBytes(append([]byte("SNKY"), make([]byte, 28)...)).Push(64).Op(vm.MSTORE)
	a.Push(96).Push(0).Op(vm.RETURN)
	a.Label("dec")
	a.Push(18).Push(0).Op(vm.MSTORE).Push(32).Push(0).Op(vm.RETURN)
	a.Label("bal")
	a.Push(4).Op(vm.CALLDATALOAD, vm.SLOAD).Push(0).Op(vm.MSTORE).Push(32).Push(0).Op(vm.RETURN)
	a.Label("sup")
	a.PushBig(new(big.Int).Exp(big.NewInt(10), big.NewInt(24), nil)).Push(0).Op(vm.MSTORE).Push(32).Push(0).Op(vm.RETURN)
	return a.Bytes()
}

type C10ApprOp struct {
	K   string `json:"k"` // convert-erc20 | convert-coin | arm | disarm | thief
	A   int    `json:"a"`
	Amt int64  `json:"amt"`
}

type C10ApprCase struct {
	Topics int         `json:"approval_topics"` // how the armed token emits its Approval: LOG1..LOG4
	Ops    []C10ApprOp `json:"ops"`
}

func genC10Appr(t *rapid.T) C10ApprCase {
	c := C10ApprCase{Topics: rapid.IntRange(1, 4).Draw(t, "topics")}
	if rapid.Bool().Draw(t, "scenario") {
		// some escrow exists from honest times, the token turns, another conversion, the thief
		c.Ops = []C10ApprOp{{K: "convert-erc20", A: 0, Amt: 1000}, {K: "arm"}, {K: "convert-erc20", A: rapid.IntRange(0, 1).Draw(t, "sc-a"), Amt: rapid.SampledFrom([]int64{1, 10, 5000}).Draw(t, "sc-amt")}, {K: "thief"}}
	}
	n := rapid.IntRange(1, 6).Draw(t, "nops")
	for i := 0; i < n; i++ {
		c.Ops = append(c.Ops, C10ApprOp{K: rapid.SampledFrom([]string{"convert-erc20", "convert-erc20", "convert-coin", "arm", "disarm", "thief", "thief"}).Draw(t, "k"),
			A: rapid.IntRange(0, 1).Draw(t, "a"), Amt: rapid.SampledFrom([]int64{1, 7, 1000, 999999}).Draw(t, "amt")})
	}
	return c
}

func runC10Appr(st *ev.Stats, c C10ApprCase) string {
	st.Eval()
	fail := func(key, what string) string { return st.Discrepancy(key, what, c) }
	users := []chain.Account{chain.Acct("c10a-u0"), chain.Acct("c10a-u1")}
	o := hOpts(History{NumVals: 1})
	o.Accounts = users
	n := chain.NewNode(o)
	app := n.App
	module := authtypes.NewModuleAddress(erc20types.ModuleName)
	moduleHex := common.BytesToAddress(module.Bytes())
	abi := contracts.ERC20MinterBurnerDecimalsContract.ABI
	n.BeginBlock(chain.BlockIn{})
	setState := func(f func(db *statedb.StateDB)) {
		ctx := n.Ctx()
		db := statedb.New(ctx, app.EvmKeeper, statedb.NewEmptyTxConfig(common.BytesToHash(ctx.HeaderHash().Bytes())))
		f(db)
		must(db.Commit())
	}
	setState(func(db *statedb.StateDB) {
		db.SetCode(c10SneakyAddr, c10SneakyRuntime())
		for _, u := range users {
			db.SetState(c10SneakyAddr, common.BytesToHash(u.Hex.Bytes()), common.BigToHash(big.NewInt(1_000_000_000_000)))
		}
	})
	var denom string
	{
		cctx, write := n.Ctx().CacheContext()
		p, err := app.Erc20Keeper.RegisterERC20(cctx, c10SneakyAddr)
		must(err)
		denom = p.Denom
		app.AccountKeeper.SetAccount(cctx, app.AccountKeeper.NewAccountWithAddress(cctx, sdk.AccAddress(c10SneakyThief.Bytes())))
		write()
	}
	n.EndBlockCommit()
	n.BeginBlock(chain.BlockIn{})
	price := big.NewInt(20_000_000_000)
	cosmosAs := func(signer chain.Account, msgs ...sdk.Msg) (bool, string) {
		num, seq := txb.AccInfo(n.Ctx(), app, signer.Addr)
		res := n.DeliverTx(txb.CosmosTx(signer, txb.Cosmos{Msgs: msgs, Gas: 3000000, Fee: coinsOfGas(3000000, price), ChainID: chain.ChainID, AccNum: num, Seq: seq}))
		return res.Code == 0, res.Log
	}
	bal := func(who common.Address) *big.Int {
		if b := app.Erc20Keeper.BalanceOf(n.Ctx(), abi, c10SneakyAddr, who); b != nil {
			return b
		}
		return new(big.Int)
	}
	armed, acceptedArmed, drained := false, false, false
	for i, op := range c.Ops {
		u := users[op.A]
		ok := false
		switch op.K {
		case "arm", "disarm":
			k := 0
			if op.K == "arm" {
				k = c.Topics
			}
			setState(func(db *statedb.StateDB) {
				db.SetState(c10SneakyAddr, c10SneakyCfg, common.BigToHash(big.NewInt(int64(k))))
			})
			armed = k > 0
			continue
		case "convert-erc20":
			ok, _ = cosmosAs(u, erc20types.NewMsgConvertERC20(sdkmath.NewInt(op.Amt), u.Addr, c10SneakyAddr, u.Hex))
		case "convert-coin":
			have := app.BankKeeper.GetBalance(n.Ctx(), u.Addr, denom).Amount
			if have.IsZero() {
				continue
			}
			amt := sdkmath.NewInt(op.Amt)
			if have.LT(amt) {
				amt = have
			}
			ok, _ = cosmosAs(u, erc20types.NewMsgConvertCoin(sdk.NewCoin(denom, amt), u.Hex, u.Addr))
		case "thief":
			take := bal(moduleHex)
			if take.Sign() == 0 {
				continue
			}
			cctx, write := n.Ctx().CacheContext()
			data := append(common.FromHex("0x0a11ce05"), append(common.LeftPadBytes(moduleHex.Bytes(), 32), common.LeftPadBytes(take.Bytes(), 32)...)...)
			if _, err := app.Erc20Keeper.CallEVMWithData(cctx, c10SneakyThief, &c10SneakyAddr, data, true); err == nil {
				write()
				ok, drained = true, true
			}
		}
		state := "honest"
		if armed {
			state = fmt.Sprintf("armed-log%d", c.Topics)
		}
		if ok {
			st.Class("ok:" + op.K + ":" + state)
			if armed && op.K != "thief" {
				acceptedArmed = true
			}
		} else {
			st.Class("refused:" + op.K + ":" + state)
		}
		sup, mod := app.BankKeeper.GetSupply(n.Ctx(), denom).Amount.BigInt(), bal(moduleHex)
		if sup.Cmp(mod) > 0 {
			return fail(fmt.Sprintf("peg:approval-with-%d-topics", c.Topics), fmt.Sprintf("after op %d %+v: coin supply %s exceeds the %s tokens the module holds (a conversion was accepted while the token announced a secret allowance with an Approval event of %d topics: %v; thief drained: %v)",
				i, op, sup, mod, c.Topics, acceptedArmed, drained))
		}
	}
	if armed || acceptedArmed {
		st.NonTrivial(c)
	}
	return ""
}

func init() {
	replayers["TestC10_Approval"] = func(st *ev.Stats, raw json.RawMessage) string {
		var c C10ApprCase
		must(json.Unmarshal(raw, &c))
		return runC10Appr(st, c)
	}
}

func TestC10_Approval(t *testing.T) {
	st := ev.New("C10", "TestC10_Approval", "ERC20-origin token with truthful balances that, once armed, gives a thief an allowance on every recipient and says so with an Approval-signature event of 1..4 topics; MsgConvertERC20 / MsgConvertCoin, arming, and the thief draining the module's escrow; the pair must stay backed; non-trivial = the token was armed")
	runCorpus(t, st)
	runRapid(t, st, 150, 6000, func(rt *rapid.T) {
		if msg := runC10Appr(st, genC10Appr(rt)); msg != "" {
			rt.Fatalf("%s", msg)
		}
	})
}
