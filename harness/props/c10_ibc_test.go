package props

// C10 over IBC: automatic conversions on receive / acknowledgement-error / timeout and in the ERC20-aware transfer
// message. A Haqq chain and a plain Cosmos chain (ibc-go's simapp) are connected by a real transfer channel using the
// repository's own ibc/testing helpers (light clients, proofs, relaying all real). Generated histories of transfers in
// both directions (valid, to an invalid receiver -> error acknowledgement, timed out), of native ERC20-origin tokens and
// of foreign coins that have a registered ERC20 representation, with pair toggles and explicit conversions in between.
// After every step the C10 backing equations are evaluated on the Haqq chain, plus cross-chain conservation: what the
// Haqq channel escrow holds equals the voucher supply on the other chain, and vice versa.
//
// Note: the repository's helpers draw validator and account keys at random; addresses differ between runs, the
// generated history (the case) does not.

import (
	"encoding/json"
	"fmt"
	"math/big"
	"math/rand"
	"strings"
	"testing"

	sdkmath "cosmossdk.io/math"
	"github.com/cosmos/cosmos-sdk/testutil/sims"
	sdk "github.com/cosmos/cosmos-sdk/types"
	authtypes "github.com/cosmos/cosmos-sdk/x/auth/types"
	banktypes "github.com/cosmos/cosmos-sdk/x/bank/types"
	transfertypes "github.com/cosmos/ibc-go/v7/modules/apps/transfer/types"
	clienttypes "github.com/cosmos/ibc-go/v7/modules/core/02-client/types"
	channeltypes "github.com/cosmos/ibc-go/v7/modules/core/04-channel/types"
	host "github.com/cosmos/ibc-go/v7/modules/core/24-host"
	ibcgotesting "github.com/cosmos/ibc-go/v7/testing"
	"github.com/ethereum/go-ethereum/common"
	ethcrypto "github.com/ethereum/go-ethereum/crypto"
	"pgregory.net/rapid"

	"verif/ev"

	haqqapp "github.com/haqq-network/haqq/app"
	"github.com/haqq-network/haqq/contracts"
	haqqibc "github.com/haqq-network/haqq/ibc/testing"
	"github.com/haqq-network/haqq/utils"
	coinomicstypes "github.com/haqq-network/haqq/x/coinomics/types"
	erc20types "github.com/haqq-network/haqq/x/erc20/types"
	"github.com/haqq-network/haqq/x/evm/statedb"
)

type IBCOp struct {
	K    string `json:"k"`    // out-erc20 | back-erc20 | in-coin | out-coin | toggle | convert
	Amt  int64  `json:"amt"`  // base units
	Mode string `json:"mode"` // ok | bad-receiver | timeout
	Pair int    `json:"pair"` // toggle / convert: 0 = foreign coin pair, 1 = ERC20-origin pair
	Dir  int    `json:"dir"`  // convert: 0 coin->token, 1 token->coin
}

type IBCCase struct {
	Ops   []IBCOp `json:"ops"`
	Token string  `json:"token,omitempty"` // "" honest ERC20MinterBurnerDecimals | pausable (hand-assembled, truthful balances, can be paused)
}

func genIBCCase(t *rapid.T) IBCCase {
	c := IBCCase{}
	n := rapid.IntRange(2, 7).Draw(t, "nops")
	for i := 0; i < n; i++ {
		op := IBCOp{K: rapid.SampledFrom([]string{"out-erc20", "out-erc20", "back-erc20", "back-erc20", "in-coin", "in-coin", "out-coin", "toggle", "convert", "pause"}).Draw(t, "k")}
		op.Amt = rapid.SampledFrom([]int64{1, 7, 100, 1000, 999999}).Draw(t, "amt")
		op.Mode = rapid.SampledFrom([]string{"ok", "ok", "ok", "bad-receiver", "timeout"}).Draw(t, "mode")
		op.Pair = rapid.IntRange(0, 1).Draw(t, "pair")
		op.Dir = rapid.IntRange(0, 1).Draw(t, "dir")
		c.Ops = append(c.Ops, op)
	}
	if rapid.IntRange(0, 5).Draw(t, "delayed") == 0 {
		// the repository's delayed-malicious token (every transfer secretly gives a thief an allowance on the recipient
		// and says so in an Approval event): every conversion, the automatic one of an outgoing transfer included, must
		// fail without effect, so the thief never finds anything to take
		c.Token = "delayed"
		for i := range c.Ops {
			if c.Ops[i].K == "pause" || c.Ops[i].K == "toggle" {
				c.Ops[i].K = "thief"
			}
		}
		c.Ops = append(c.Ops, IBCOp{K: "thief"})
		return c
	}
	if rapid.IntRange(0, 2).Draw(t, "pausable") == 0 {
		c.Token = "pausable"
		if rapid.Bool().Draw(t, "pause-scenario") {
			// tokens go out while the token cooperates, it is paused, and then they come home / time out / bounce
			mode := rapid.SampledFrom([]string{"ok", "timeout", "bad-receiver"}).Draw(t, "ps-mode")
			sc := []IBCOp{{K: "out-erc20", Amt: 1000, Mode: "ok"}, {K: "pause", Pair: 1}}
			switch mode {
			case "ok":
				sc = append(sc, IBCOp{K: "back-erc20", Amt: 100, Mode: "ok"})
			default:
				// the user holds the coin form (converted while the token cooperated), the token is paused, a transfer
				// of coins goes out and is refunded (timeout / error acknowledgement): the refund's re-conversion fails
				sc = []IBCOp{{K: "convert", Amt: 5000, Pair: 1, Dir: 1}, {K: "pause", Pair: 1}, {K: "out-erc20", Amt: 100, Mode: mode}}
			}
			c.Ops = append(sc, c.Ops...)
			if len(c.Ops) > 8 {
				c.Ops = c.Ops[:8]
			}
		}
	}
	return c
}

type ibcEnv struct {
	t         *testing.T
	coord     *ibcgotesting.Coordinator
	H, B      *ibcgotesting.TestChain
	path      *haqqibc.Path
	app       *haqqapp.Haqq
	token     common.Address // ERC20-origin token
	denomT    string         // its coin denomination (erc20/0x..)
	denomV    string         // voucher of B's "stake" on Haqq (ibc/..), registered coin pair
	tokenV    common.Address // ERC20 representation of the voucher
	denomB    string         // voucher of denomT on chain B (ibc/..)
	tokenKind string
}

// ibcDeliver signs msgs with the chain's sender key and delivers them in a block of their own; unlike the
// repository's SendMsgs it tolerates failure.
func ibcDeliver(chain *ibcgotesting.TestChain, msgs ...sdk.Msg) (*sdk.Result, error) {
	chain.Coordinator.UpdateTimeForChain(chain)
	denom := sdk.DefaultBondDenom
	var accNum, seq uint64
	if h, ok := chain.App.(*haqqapp.Haqq); ok {
		denom = utils.BaseDenom
		acc := h.AccountKeeper.GetAccount(chain.GetContext(), chain.SenderAccount.GetAddress())
		accNum, seq = acc.GetAccountNumber(), acc.GetSequence()
	} else {
		acc := chain.GetSimApp().AccountKeeper.GetAccount(chain.GetContext(), chain.SenderAccount.GetAddress())
		accNum, seq = acc.GetAccountNumber(), acc.GetSequence()
	}
	fee := sdk.Coins{sdk.NewInt64Coin(denom, haqqibc.DefaultFeeAmt)}
	tx, err := sims.GenSignedMockTx(rand.New(rand.NewSource(1)), chain.TxConfig, msgs, fee, 3_000_000, chain.ChainID, []uint64{accNum}, []uint64{seq}, chain.SenderPrivKey) //nolint:gosec
	if err != nil {
		return nil, err
	}
	_, res, err := chain.App.GetBaseApp().SimDeliver(chain.TxConfig.TxEncoder(), tx)
	chain.NextBlock()
	// the helpers keep the sender's sequence locally: bring it in line with the chain whatever the outcome was
	if h, ok := chain.App.(*haqqapp.Haqq); ok {
		must(chain.SenderAccount.SetSequence(h.AccountKeeper.GetAccount(chain.GetContext(), chain.SenderAccount.GetAddress()).GetSequence()))
	} else {
		must(chain.SenderAccount.SetSequence(chain.GetSimApp().AccountKeeper.GetAccount(chain.GetContext(), chain.SenderAccount.GetAddress()).GetSequence()))
	}
	chain.Coordinator.IncrementTime()
	return res, err
}

func newIBCEnv(t *testing.T, tokenKind ...string) *ibcEnv {
	e := &ibcEnv{t: t}
	if len(tokenKind) > 0 {
		e.tokenKind = tokenKind[0]
	}
	e.coord = haqqibc.NewCoordinator(t, 1, 1)
	e.H = e.coord.GetChain(ibcgotesting.GetChainID(1))
	e.B = e.coord.GetChain(ibcgotesting.GetChainID(2))
	e.coord.CommitNBlocks(e.H, 2)
	e.coord.CommitNBlocks(e.B, 2)
	e.app = e.H.App.(*haqqapp.Haqq)
	ctx := e.H.GetContext()
	evmParams := e.app.EvmKeeper.GetParams(ctx)
	evmParams.EvmDenom = utils.BaseDenom
	must(e.app.EvmKeeper.SetParams(ctx, evmParams))
	vals := e.app.StakingKeeper.GetValidators(ctx, 2)
	cons, err := vals[0].GetConsAddr()
	must(err)
	e.H.CurrentHeader.ProposerAddress = cons.Bytes()
	must(e.app.StakingKeeper.SetValidatorByConsAddr(ctx, vals[0]))
	amt, _ := sdkmath.NewIntFromString("1000000000000000000000")
	coins := sdk.NewCoins(sdk.NewCoin(utils.BaseDenom, amt))
	must(e.app.BankKeeper.MintCoins(ctx, coinomicstypes.ModuleName, coins))
	must(e.app.BankKeeper.SendCoinsFromModuleToAccount(ctx, coinomicstypes.ModuleName, e.H.SenderAccount.GetAddress(), coins))
	e.coord.CommitNBlocks(e.H, 1)

	e.path = haqqibc.NewTransferPath(e.H, e.B)
	haqqibc.SetupPath(e.coord, e.path)

	// the ERC20-origin token: deployed by the sender, registered as a pair
	ctx = e.H.GetContext()
	abi := contracts.ERC20MinterBurnerDecimalsContract.ABI
	sender := common.BytesToAddress(e.H.SenderAccount.GetAddress().Bytes())
	ctor, err := abi.Pack("", "Native", "NAT", uint8(18))
	must(err)
	if e.tokenKind == "pausable" {
		db := statedb.New(ctx, e.app.EvmKeeper, statedb.NewEmptyTxConfig(common.BytesToHash(ctx.HeaderHash().Bytes())))
		db.SetCode(c10QuirkAddr, c10QuirkRuntime())
		db.SetState(c10QuirkAddr, common.BytesToHash(sender.Bytes()), common.BigToHash(big.NewInt(1_000_000_000_000)))
		must(db.Commit())
		e.token = c10QuirkAddr
	} else if e.tokenKind == "delayed" {
		nonce := e.app.EvmKeeper.GetNonce(ctx, sender)
		dctor, err := contracts.ERC20MaliciousDelayedContract.ABI.Pack("", big.NewInt(1_000_000_000_000))
		must(err)
		_, err = e.app.Erc20Keeper.CallEVMWithData(ctx, sender, nil, append(append([]byte{}, contracts.ERC20MaliciousDelayedContract.Bin...), dctor...), true)
		must(err)
		e.token = ethcrypto.CreateAddress(sender, nonce)
	} else {
		nonce := e.app.EvmKeeper.GetNonce(ctx, sender)
		_, err = e.app.Erc20Keeper.CallEVMWithData(ctx, sender, nil, append(append([]byte{}, contracts.ERC20MinterBurnerDecimalsContract.Bin...), ctor...), true)
		must(err)
		e.token = ethcrypto.CreateAddress(sender, nonce)
		_, err = e.app.Erc20Keeper.CallEVM(ctx, abi, sender, e.token, true, "mint", sender, big.NewInt(1_000_000_000_000))
		must(err)
	}
	pair, err := e.app.Erc20Keeper.RegisterERC20(ctx, e.token)
	must(err)
	e.denomT = pair.Denom
	// the foreign coin: its voucher denomination on Haqq is known in advance; a little supply must exist to register it
	trace := transfertypes.ParseDenomTrace(transfertypes.GetPrefixedDenom(e.path.EndpointA.ChannelConfig.PortID, e.path.EndpointA.ChannelID, sdk.DefaultBondDenom))
	e.denomV = trace.IBCDenom()
	must(e.app.BankKeeper.MintCoins(ctx, erc20types.ModuleName, sdk.NewCoins(sdk.NewInt64Coin(e.denomV, 1))))
	must(e.app.BankKeeper.BurnCoins(ctx, erc20types.ModuleName, sdk.NewCoins(sdk.NewInt64Coin(e.denomV, 1))))
	must(e.app.BankKeeper.MintCoins(ctx, coinomicstypes.ModuleName, sdk.NewCoins(sdk.NewInt64Coin(e.denomV, 1))))
	pv, err := e.app.Erc20Keeper.RegisterCoin(ctx, banktypes.Metadata{Description: "voucher of the other chain's coin", Base: e.denomV,
		DenomUnits: []*banktypes.DenomUnit{{Denom: e.denomV, Exponent: 0}}, Name: e.denomV, Symbol: "FRGN", Display: e.denomV})
	must(err)
	e.tokenV = pv.GetERC20Contract()
	traceB := transfertypes.ParseDenomTrace(transfertypes.GetPrefixedDenom(e.path.EndpointB.ChannelConfig.PortID, e.path.EndpointB.ChannelID, e.denomT))
	e.denomB = traceB.IBCDenom()
	e.coord.CommitNBlocks(e.H, 1)
	// the deployment used the sender's nonce: bring the helpers' local sequence in line
	must(e.H.SenderAccount.SetSequence(e.app.AccountKeeper.GetAccount(e.H.GetContext(), e.H.SenderAccount.GetAddress()).GetSequence()))
	return e
}

// relay delivers the packet on dst and its acknowledgement on src with transactions that may fail; it returns why the
// packet stays pending, or "".
func (e *ibcEnv) relay(src, dst *haqqibc.Endpoint, packet channeltypes.Packet) string {
	must(dst.UpdateClient())
	proof, proofHeight := src.Chain.QueryProof(host.PacketCommitmentKey(packet.GetSourcePort(), packet.GetSourceChannel(), packet.GetSequence()))
	res, err := ibcDeliver(dst.Chain, channeltypes.NewMsgRecvPacket(packet, proof, proofHeight, dst.Chain.SenderAccount.GetAddress().String()))
	if err != nil {
		return "receive transaction failed (packet stays pending): " + err.Error()
	}
	must(src.UpdateClient())
	ack, err := ibcgotesting.ParseAckFromEvents(res.GetEvents())
	if err != nil {
		return "no acknowledgement written (packet stays pending): " + err.Error()
	}
	aproof, aheight := dst.QueryProof(host.PacketAcknowledgementKey(packet.GetDestPort(), packet.GetDestChannel(), packet.GetSequence()))
	if _, err := ibcDeliver(src.Chain, channeltypes.NewMsgAcknowledgement(packet, ack, aproof, aheight, src.Chain.SenderAccount.GetAddress().String())); err != nil {
		return "acknowledgement transaction failed (packet stays pending): " + err.Error()
	}
	return ""
}

// transfer sends a MsgTransfer from `from` and relays it according to mode; returns false if the message failed.
func (e *ibcEnv) transfer(fromHaqq bool, denom string, amt int64, mode string) (bool, string) {
	src, dst := e.path.EndpointA, e.path.EndpointB
	if !fromHaqq {
		src, dst = dst, src
	}
	receiver := dst.Chain.SenderAccount.GetAddress().String()
	if mode == "bad-receiver" {
		receiver = "not-an-address"
	}
	timeout := clienttypes.NewHeight(1, 1_000_000)
	if mode == "timeout" {
		timeout = clienttypes.NewHeight(clienttypes.ParseChainID(dst.Chain.ChainID), uint64(dst.Chain.CurrentHeader.Height)+1)
	}
	msg := transfertypes.NewMsgTransfer(src.ChannelConfig.PortID, src.ChannelID, sdk.NewInt64Coin(denom, amt), src.Chain.SenderAccount.GetAddress().String(), receiver, timeout, 0, "")
	res, err := ibcDeliver(src.Chain, msg)
	if err != nil {
		return false, err.Error()
	}
	packet, err := ibcgotesting.ParsePacketFromEvents(res.GetEvents())
	if err != nil {
		return false, "no packet in events: " + err.Error()
	}
	// relaying is done with deliveries that tolerate a failing transaction (a refund whose re-conversion fails makes
	// the whole acknowledgement / timeout transaction fail: the packet then simply stays pending)
	switch mode {
	case "timeout":
		e.coord.CommitNBlocks(dst.Chain, 3)
		must(src.UpdateClient())
		proof, proofHeight := dst.QueryProof(host.PacketReceiptKey(packet.GetDestPort(), packet.GetDestChannel(), packet.GetSequence()))
		nextSeqRecv, _ := dst.Chain.App.GetIBCKeeper().ChannelKeeper.GetNextSequenceRecv(dst.Chain.GetContext(), dst.ChannelConfig.PortID, dst.ChannelID)
		msg := channeltypes.NewMsgTimeout(packet, nextSeqRecv, proof, proofHeight, src.Chain.SenderAccount.GetAddress().String())
		if _, err := ibcDeliver(src.Chain, msg); err != nil {
			return true, "timeout transaction failed (packet stays pending): " + err.Error()
		}
	default:
		if why := e.relay(src, dst, packet); why != "" {
			return true, why
		}
	}
	return true, ""
}

func runIBC(st *ev.Stats, t *testing.T, c IBCCase) string {
	st.Eval()
	fail := func(key, what string) string { return st.Discrepancy(key, what, c) }
	e := newIBCEnv(t, c.Token)
	app := e.app
	abi := contracts.ERC20MinterBurnerDecimalsContract.ABI
	module := authtypes.NewModuleAddress(erc20types.ModuleName)
	moduleHex := common.BytesToAddress(module.Bytes())
	hAddr := e.H.SenderAccount.GetAddress()
	hHex := common.BytesToAddress(hAddr.Bytes())
	escrowH := transfertypes.GetEscrowAddress(e.path.EndpointA.ChannelConfig.PortID, e.path.EndpointA.ChannelID)
	escrowB := transfertypes.GetEscrowAddress(e.path.EndpointB.ChannelConfig.PortID, e.path.EndpointB.ChannelID)
	bal := func(tk common.Address, who common.Address) *big.Int {
		if b := app.Erc20Keeper.BalanceOf(e.H.GetContext(), abi, tk, who); b != nil {
			return b
		}
		return new(big.Int)
	}
	totalSupply := func(tk common.Address) *big.Int {
		res, err := app.Erc20Keeper.CallEVM(e.H.GetContext(), abi, erc20types.ModuleAddress, tk, false, "totalSupply")
		if err != nil {
			return new(big.Int)
		}
		out, err := abi.Unpack("totalSupply", res.Ret)
		if err != nil || len(out) == 0 {
			return new(big.Int)
		}
		return out[0].(*big.Int)
	}
	pendingT := new(big.Int) // ERC20-origin coins of packets whose refund transaction failed (still in flight)
	pendingV := new(big.Int) // vouchers burnt on sending whose refund transaction failed (still in flight)
	check := func(step int, op IBCOp) string {
		ctx := e.H.GetContext()
		bctx := e.B.GetContext()
		bank, bbank := app.BankKeeper, e.B.GetSimApp().BankKeeper
		// ERC20-origin pair: coin supply backed by the module's tokens
		supT, modT := bank.GetSupply(ctx, e.denomT).Amount.BigInt(), bal(e.token, moduleHex)
		if supT.Cmp(modT) != 0 {
			return fail("ibc-peg:erc20-origin:"+op.K+":"+op.Mode, fmt.Sprintf("after op %d %+v: coin supply of %s is %s, the module holds %s tokens", step, op, e.denomT, supT, modT))
		}
		// foreign coin pair: ERC20 total supply backed by escrowed vouchers
		tsV, escV := totalSupply(e.tokenV), bank.GetBalance(ctx, module, e.denomV).Amount.BigInt()
		if tsV.Cmp(escV) != 0 {
			return fail("ibc-peg:coin-origin:"+op.K+":"+op.Mode, fmt.Sprintf("after op %d %+v: ERC20 supply of the voucher token is %s, the module escrows %s %s", step, op, tsV, escV, e.denomV))
		}
		// cross-chain conservation
		// (a refund that could not be processed leaves its packet pending: those coins are still in the escrow)
		if a, b := bank.GetBalance(ctx, escrowH, e.denomT).Amount, bbank.GetSupply(bctx, e.denomB).Amount.Add(sdkmath.NewIntFromBigInt(pendingT)); !a.Equal(b) {
			return fail("ibc-conservation:erc20-origin:"+op.K+":"+op.Mode, fmt.Sprintf("after op %d %+v: Haqq channel escrow holds %s %s, chain B has %s vouchers", step, op, a, e.denomT, b))
		}
		if a, b := bbank.GetBalance(bctx, escrowB, sdk.DefaultBondDenom).Amount, bank.GetSupply(ctx, e.denomV).Amount.SubRaw(1).Add(sdkmath.NewIntFromBigInt(pendingV)); !a.Equal(b) {
			return fail("ibc-conservation:coin-origin:"+op.K+":"+op.Mode, fmt.Sprintf("after op %d %+v: chain B escrows %s, Haqq has %s vouchers (one seed unit excluded)", step, op, a, b))
		}
		return ""
	}
	if msg := check(-1, IBCOp{K: "setup"}); msg != "" {
		return msg
	}
	kinds := map[string]bool{}
	for i, op := range c.Ops {
		ctx := e.H.GetContext()
		userTok, userCoin := bal(e.token, hHex), app.BankKeeper.GetBalance(ctx, hAddr, e.denomT).Amount.BigInt()
		total0 := new(big.Int).Add(userTok, userCoin)
		value0 := new(big.Int).Add(total0, app.BankKeeper.GetBalance(ctx, escrowH, e.denomT).Amount.BigInt())
		userTokV, userCoinV := bal(e.tokenV, hHex), app.BankKeeper.GetBalance(ctx, hAddr, e.denomV).Amount.BigInt()
		totalV0 := new(big.Int).Add(userTokV, userCoinV)
		ok, why := false, ""
		switch op.K {
		case "out-erc20":
			ok, why = e.transfer(true, e.denomT, op.Amt, op.Mode)
			if ok && strings.Contains(why, "packet stays pending") {
				pendingT.Add(pendingT, big.NewInt(op.Amt))
				st.Class("refund-pending:" + op.Mode)
			}
		case "back-erc20":
			have := e.B.GetSimApp().BankKeeper.GetBalance(e.B.GetContext(), e.B.SenderAccount.GetAddress(), e.denomB).Amount
			if have.IsZero() {
				continue
			}
			amt := op.Amt
			if have.LT(sdkmath.NewInt(amt)) {
				amt = have.Int64()
			}
			op.Amt = amt
			ok, why = e.transfer(false, e.denomB, amt, op.Mode)
		case "in-coin":
			ok, why = e.transfer(false, sdk.DefaultBondDenom, op.Amt, op.Mode)
		case "out-coin":
			if totalV0.Sign() == 0 {
				continue
			}
			amt := op.Amt
			if totalV0.IsInt64() && totalV0.Int64() < amt {
				amt = totalV0.Int64()
			}
			op.Amt = amt
			ok, why = e.transfer(true, e.denomV, amt, op.Mode)
			if ok && strings.Contains(why, "packet stays pending") {
				pendingV.Add(pendingV, big.NewInt(op.Amt))
				st.Class("refund-pending:" + op.Mode)
			}
		case "thief":
			// the thief spends whatever allowance the token secretly gave it on the module's escrow
			thief := common.HexToAddress("0x4dC6ac40Af078661fc43823086E1513635Eeab14")
			take := bal(e.token, moduleHex)
			if c.Token != "delayed" || take.Sign() == 0 {
				continue
			}
			cctx, write := e.H.GetContext().CacheContext()
			if app.AccountKeeper.GetAccount(cctx, sdk.AccAddress(thief.Bytes())) == nil {
				app.AccountKeeper.SetAccount(cctx, app.AccountKeeper.NewAccountWithAddress(cctx, sdk.AccAddress(thief.Bytes())))
			}
			if _, err := app.Erc20Keeper.CallEVM(cctx, abi, thief, e.token, true, "transferFrom", moduleHex, thief, take); err == nil {
				write()
				ok = true
				st.Class("thief-drained-escrow")
			}
			e.coord.CommitNBlocks(e.H, 1)
		case "pause":
			if c.Token != "pausable" {
				continue
			}
			sel := "0x0a11ce03" // pause
			if op.Pair == 0 {
				sel = "0x0a11ce04" // resume
			}
			_, err := app.Erc20Keeper.CallEVMWithData(e.H.GetContext(), hHex, &e.token, common.FromHex(sel), true)
			ok = err == nil
			e.coord.CommitNBlocks(e.H, 1)
			must(e.H.SenderAccount.SetSequence(app.AccountKeeper.GetAccount(e.H.GetContext(), hAddr).GetSequence()))
		case "toggle":
			d := e.denomV
			if op.Pair == 1 {
				d = e.denomT
			}
			_, err := app.Erc20Keeper.ToggleConversion(e.H.GetContext(), d)
			ok = err == nil
			e.coord.CommitNBlocks(e.H, 1)
		case "convert":
			var msg sdk.Msg
			d, tk := e.denomV, e.tokenV
			if op.Pair == 1 {
				d, tk = e.denomT, e.token
			}
			if op.Dir == 0 {
				msg = erc20types.NewMsgConvertCoin(sdk.NewInt64Coin(d, op.Amt), hHex, hAddr)
			} else {
				msg = erc20types.NewMsgConvertERC20(sdkmath.NewInt(op.Amt), hAddr, tk, hHex)
			}
			_, err := ibcDeliver(e.H, msg)
			ok = err == nil
			if err != nil {
				why = err.Error()
			}
		}
		cls := op.K
		if strings.HasPrefix(op.K, "out") || strings.HasPrefix(op.K, "back") || strings.HasPrefix(op.K, "in") {
			cls += ":" + op.Mode
		}
		if ok {
			st.Class("ok:" + cls)
			kinds[cls] = true
		} else {
			st.Class("refused:" + cls)
			_ = why
		}
		if msg := check(i, op); msg != "" {
			return msg
		}
		// the user's holdings (both representations together) move by exactly the transferred amount, or not at all
		ctx = e.H.GetContext()
		total1 := new(big.Int).Add(bal(e.token, hHex), app.BankKeeper.GetBalance(ctx, hAddr, e.denomT).Amount.BigInt())
		totalV1 := new(big.Int).Add(bal(e.tokenV, hHex), app.BankKeeper.GetBalance(ctx, hAddr, e.denomV).Amount.BigInt())
		dT, dV := new(big.Int).Sub(total1, total0), new(big.Int).Sub(totalV1, totalV0)
		wantT, wantV := int64(0), int64(0)
		if ok {
			switch {
			case op.K == "out-erc20" && op.Mode == "ok":
				wantT = -op.Amt
			case op.K == "back-erc20" && op.Mode == "ok":
				wantT = op.Amt
			case op.K == "in-coin" && op.Mode == "ok":
				wantV = op.Amt
			case op.K == "out-coin" && op.Mode == "ok":
				wantV = -op.Amt
			case op.K == "out-erc20" && strings.Contains(why, "packet stays pending"):
				wantT = -op.Amt // the refund has not happened (yet)
			case op.K == "out-coin" && strings.Contains(why, "packet stays pending"):
				wantV = -op.Amt
			}
		}
		// value conservation for the ERC20-origin token: what the user holds on Haqq (both representations) plus what
		// the channel escrow holds for the vouchers on the other chain never changes; coins of that denomination
		// sitting anywhere else (e.g. stranded in the module account by a half-finished conversion) are lost value
		value1 := new(big.Int).Add(total1, app.BankKeeper.GetBalance(ctx, escrowH, e.denomT).Amount.BigInt())
		if value1.Cmp(value0) != 0 {
			return fail("ibc-value-lost:"+cls, fmt.Sprintf("op %d %+v (ok=%v %s): user holdings + channel escrow of %s went %s -> %s; module account holds %s coins, %s tokens", i, op, ok, trunc(why), e.denomT, value0, value1,
				app.BankKeeper.GetBalance(ctx, module, e.denomT).Amount, bal(e.token, moduleHex)))
		}
		if c.Token == "pausable" {
			// with a token that may refuse transfers a refund can stay pending: only conservation is required
			continue
		}
		if dT.Cmp(big.NewInt(wantT)) != 0 || dV.Cmp(big.NewInt(wantV)) != 0 {
			return fail("ibc-user-holdings:"+cls, fmt.Sprintf("op %d %+v (ok=%v %s): user's %s holdings (coin+token) changed by %s (want %d), voucher holdings by %s (want %d)", i, op, ok, trunc(why), e.denomT, dT, wantT, dV, wantV))
		}
	}
	n := 0
	for k := range kinds {
		if strings.Contains(k, "bad-receiver") || strings.Contains(k, "timeout") {
			n++
		}
	}
	if n > 0 && len(kinds) >= 2 {
		st.NonTrivial(c)
	}
	return ""
}

func init() {
	replayers["TestC10_IBC"] = func(st *ev.Stats, raw json.RawMessage) string {
		var c IBCCase
		must(json.Unmarshal(raw, &c))
		return runIBC(st, replayT, c)
	}
}

func TestC10_IBC(t *testing.T) {
	st := ev.New("C10", "TestC10_IBC", "a Haqq chain and an ibc-go simapp chain connected by a real transfer channel; 2-7 ops: transfers of an ERC20-origin token out and back, of a foreign coin with a registered ERC20 representation in and out, each relayed normally, to an invalid receiver (error acknowledgement) or timed out; pair toggles and explicit conversions in between; non-trivial = a history with a refunding transfer (error ack or timeout) and at least one other successful kind of step")
	replayT = t
	runCorpus(t, st)
	runRapid(t, st, 40, 3000, func(rt *rapid.T) {
		if msg := runIBC(st, t, genIBCCase(rt)); msg != "" {
			rt.Fatalf("%s", msg)
		}
	})
}
