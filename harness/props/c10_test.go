package props

// C10 — ERC20 <-> coin conversion keeps a 1:1 backed peg.
//
// Fresh chain per case with five pairs: a coin-origin pair (registered coin "uxmpl", module-owned ERC20) and four
// ERC20-origin pairs whose token contracts are: the honest ERC20MinterBurnerDecimals, ERC20MaliciousDelayed (grants a
// thief an allowance on every transfer), ERC20DirectBalanceManipulation (siphons half of every transfer) and a
// hand-assembled token that emits Transfer events without moving anything and misreports balanceOf.
// Ops: MsgConvertCoin, MsgConvertERC20, ERC20 transfer to the module address by Ethereum tx (EVM hook), bank MsgSend of a
// paired denom (ERC20-aware wrapper), pair toggles, holders burning their own tokens, the thief using its allowance.
// Oracle after every op and for every pair:
//   coin-origin:  totalSupply(erc20) == escrow(module, denom) - burnedByHolders   (so never >)
//   ERC20-origin: bankSupply(denom) <= balanceOf(module), and every op changes both by the same amount
//   a failed message changes neither representation for anybody.

import (
	"encoding/json"
	"fmt"
	"math/big"
	"os"
	"testing"

	sdkmath "cosmossdk.io/math"
	sdk "github.com/cosmos/cosmos-sdk/types"
	authtypes "github.com/cosmos/cosmos-sdk/x/auth/types"
	banktypes "github.com/cosmos/cosmos-sdk/x/bank/types"
	"github.com/ethereum/go-ethereum/common"
	"github.com/ethereum/go-ethereum/core/vm"
	ethcrypto "github.com/ethereum/go-ethereum/crypto"
	"pgregory.net/rapid"

	"verif/chain"
	"verif/ev"
	"verif/evmasm"
	"verif/txb"

	"github.com/haqq-network/haqq/contracts"
	erc20types "github.com/haqq-network/haqq/x/erc20/types"
	"github.com/haqq-network/haqq/x/evm/statedb"
)

type C10Op struct {
	K    string `json:"k"`    // convert-coin | convert-erc20 | hook | bank-send | toggle | burn | thief | fund
	Pair int    `json:"pair"` // 0 coin-origin, 1 honest, 2 delayed, 3 manipulating, 4 fake-event
	A    int    `json:"a"`
	B    int    `json:"b"`
	Amt  string `json:"amt"`
	Mode string `json:"mode"` // abs | all (+Off)
	Off  int64  `json:"off"`
}

type C10Case struct {
	Ops []C10Op `json:"ops"`
}

var c10PairNames = []string{"coin-origin", "honest", "delayed-malicious", "balance-manipulating", "fake-event", "self-destructing", "over-transferring"}

func genC10(t *rapid.T) C10Case {
	c := C10Case{}
	n := rapid.IntRange(2, 12).Draw(t, "nops")
	focus := rapid.SampledFrom([]int{0, 0, 1, 1, 2, 3, 4, 5, 6, 6}).Draw(t, "focus")
	for i := 0; i < n; i++ {
		op := C10Op{K: rapid.SampledFrom([]string{"convert-coin", "convert-coin", "convert-erc20", "convert-erc20", "hook", "hook", "hook-batch", "bank-send", "bank-send", "toggle", "burn", "thief", "destroy", "approve", "arm"}).Draw(t, "k")}
		op.Pair = focus
		if rapid.IntRange(0, 3).Draw(t, "other") == 0 {
			op.Pair = rapid.IntRange(0, 6).Draw(t, "pair")
		}
		op.A = rapid.IntRange(0, 1).Draw(t, "a")
		op.B = rapid.IntRange(0, 1).Draw(t, "b")
		op.Amt = rapid.SampledFrom([]string{"1", "2", "7", "1000", "999999", "1000000000"}).Draw(t, "amt")
		op.Mode = rapid.SampledFrom([]string{"abs", "abs", "all"}).Draw(t, "mode")
		op.Off = rapid.SampledFrom([]int64{0, 0, 1, -1}).Draw(t, "off")
		c.Ops = append(c.Ops, op)
	}
	switch rapid.IntRange(0, 9).Draw(t, "scenario") {
	case 0:
		// an escrow is built while the quirk token is honest, then it starts moving tokens the wrong way round
		a := rapid.IntRange(0, 1).Draw(t, "sc-a")
		c.Ops = append([]C10Op{{K: "convert-erc20", Pair: 6, A: a, B: a, Amt: "1000", Mode: "abs"}, {K: "arm", Pair: 6, A: a, Amt: "1", Mode: "abs", Off: 1},
			{K: "convert-erc20", Pair: 6, A: rapid.IntRange(0, 1).Draw(t, "sc-a2"), B: a, Amt: rapid.SampledFrom([]string{"1", "7", "1000"}).Draw(t, "sc-amt"), Mode: "abs"}}, c.Ops...)
	case 1:
		// coins of the balance-manipulating pair obtained through the hook, then paid to the address that token favours
		a := rapid.IntRange(0, 1).Draw(t, "sc-a")
		c.Ops = append([]C10Op{{K: "hook", Pair: 3, A: a, B: a, Amt: rapid.SampledFrom([]string{"20", "1000"}).Draw(t, "sc-amt"), Mode: "abs"},
			{K: "bank-send", Pair: 3, A: a, B: 1 - a, Amt: rapid.SampledFrom([]string{"4", "2", "7"}).Draw(t, "sc-amt2"), Mode: "abs", Off: 1}}, c.Ops...)
	}
	if len(c.Ops) > 14 {
		c.Ops = c.Ops[:14]
	}
	return c
}

var c10FakeAddr = common.HexToAddress("0xFa4e000000000000000000000000000000000001")
var c10QuirkAddr = common.HexToAddress("0xFa4e000000000000000000000000000000000002")
var c10ArmSlot = common.HexToHash("0x8000000000000000000000000000000000000000000000000000000000000000")

// c10QuirkRuntime: a token with truthful balanceOf (balance of x in storage slot x) that is honest until arm() is
// called; armed in mode 1 transfer(to, n) moves 2n, in mode 2 it takes 2n from the sender and gives n to the
// recipient; its Transfer event and return value still say n. In mode 5 transfer() moves nothing and returns false.
func c10QuirkRuntime() []byte {
	a := evmasm.New()
	sel := func(hex string, label string) {
		a.Push(0).Op(vm.CALLDATALOAD).Push(224).Op(vm.SHR)
		a.PushBytes(common.FromHex(hex)).Op(vm.EQ)
		a.Jumpi(label)
	}
	sel("0x06fdde03", "str")
	sel("0x95d89b41", "str")
	sel("0x313ce567", "dec")
	sel("0x70a08231", "bal")
	sel("0x18160ddd", "sup")
	sel("0x0a11ce00", "arm1")
	sel("0x0a11ce02", "arm2")
	sel("0x0a11ce03", "arm3")
	sel("0x0a11ce04", "disarm")
	sel("0x0a11ce06", "arm5")
	sel("0x0a11ce07", "arm6")
	sel("0xa9059cbb", "transfer")
	a.Label("true")
	a.Push(1).Push(0).Op(vm.MSTORE).Push(32).Push(0).Op(vm.RETURN)
	a.Label("arm1")
	a.Push(1).PushBytes(c10ArmSlot.Bytes()).Op(vm.SSTORE)
	a.Jump("true")
	a.Label("arm2")
	a.Push(2).PushBytes(c10ArmSlot.Bytes()).Op(vm.SSTORE)
	a.Jump("true")
	a.Label("arm3")
	a.Push(3).PushBytes(c10ArmSlot.Bytes()).Op(vm.SSTORE)
	a.Jump("true")
	a.Label("disarm")
	a.Push(0).PushBytes(c10ArmSlot.Bytes()).Op(vm.SSTORE)
	a.Jump("true")
	a.Label("arm5")
	a.Push(5).PushBytes(c10ArmSlot.Bytes()).Op(vm.SSTORE)
	a.Jump("true")
	a.Label("arm6")
	a.Push(6).PushBytes(c10ArmSlot.Bytes()).Op(vm.SSTORE)
	a.Jump("true")
	a.Label("false")
	a.Push(0).Push(0).Op(vm.MSTORE).Push(32).Push(0).Op(vm.RETURN)
	// mode 6: transfer(to, n) moves n the other way round, from `to` to the caller; event and return value as usual
	a.Label("reverse")
	a.Push(36).Op(vm.CALLDATALOAD)                                   // n
	a.Op(vm.DUP1).Push(4).Op(vm.CALLDATALOAD, vm.SLOAD, vm.LT)       // bal[to] < n, n
	a.Jumpi("fail")                                                  // n
	a.Op(vm.DUP1).Push(4).Op(vm.CALLDATALOAD, vm.SLOAD, vm.SUB)      // bal[to]-n, n
	a.Push(4).Op(vm.CALLDATALOAD, vm.SSTORE)                         // n
	a.Op(vm.DUP1, vm.CALLER, vm.SLOAD, vm.ADD, vm.CALLER, vm.SSTORE) // n
	a.Push(0).Op(vm.MSTORE)                                          //
	a.Push(4).Op(vm.CALLDATALOAD).Op(vm.CALLER)                      // caller, to
	a.PushBytes(common.FromHex("0xddf252ad1be2c89b69c2b068fc378daa952ba7f163c4a11628f55a4df523b3ef"))
	a.Push(32).Push(0).Op(vm.LOG3)
	a.Jump("true")
	a.Label("transfer")
	// mode 5: an old-style token that reports failure by returning false, without moving anything
	a.Push(5).PushBytes(c10ArmSlot.Bytes()).Op(vm.SLOAD, vm.EQ)
	a.Jumpi("false")
	a.Push(6).PushBytes(c10ArmSlot.Bytes()).Op(vm.SLOAD, vm.EQ)
	a.Jumpi("reverse")
	// mode 0: debit n, credit n; mode 1: debit 2n, credit 2n; mode 2: debit 2n, credit n; mode 3: paused (reverts)
	a.Push(3).PushBytes(c10ArmSlot.Bytes()).Op(vm.SLOAD, vm.EQ)
	a.Jumpi("fail")
	a.PushBytes(c10ArmSlot.Bytes()).Op(vm.SLOAD)
	a.Op(vm.DUP1, vm.ISZERO, vm.ISZERO).Push(1).Op(vm.ADD)
	a.Push(36).Op(vm.CALLDATALOAD, vm.MUL) // debit, mode
	a.Op(vm.SWAP1)
	a.Push(1).Op(vm.EQ).Push(1).Op(vm.ADD)
	a.Push(36).Op(vm.CALLDATALOAD, vm.MUL) // credit, debit
	a.Op(vm.SWAP1)                         // debit, credit
	a.Op(vm.DUP1, vm.CALLER, vm.SLOAD, vm.LT)
	a.Jumpi("fail")
	a.Op(vm.CALLER, vm.SLOAD, vm.SUB, vm.CALLER, vm.SSTORE) // balance(caller) -= debit
	a.Push(4).Op(vm.CALLDATALOAD)
	a.Op(vm.DUP1, vm.SLOAD, vm.DUP3, vm.ADD, vm.SWAP1, vm.SSTORE) // balance(to) += credit
	a.Op(vm.POP)
	a.Push(36).Op(vm.CALLDATALOAD).Push(0).Op(vm.MSTORE)
	a.Push(4).Op(vm.CALLDATALOAD)
	a.Op(vm.CALLER)
	a.PushBytes(common.FromHex("0xddf252ad1be2c89b69c2b068fc378daa952ba7f163c4a11628f55a4df523b3ef"))
	a.Push(32).Push(0).Op(vm.LOG3)
	a.Jump("true")
	a.Label("fail")
	a.Push(0).Push(0).Op(vm.REVERT)
	a.Label("str")
	a.Push(32).Push(0).Op(vm.MSTORE)
	a.Push(4).Push(32).Op(vm.MSTORE)
	a.PushBytes(append([]byte("QIRK"), make([]byte, 28)...)).Push(64).Op(vm.MSTORE)
	a.Push(96).Push(0).Op(vm.RETURN)
	a.Label("dec")
	a.Push(18).Push(0).Op(vm.MSTORE).Push(32).Push(0).Op(vm.RETURN)
	a.Label("bal")
	a.Push(4).Op(vm.CALLDATALOAD, vm.SLOAD).Push(0).Op(vm.MSTORE).Push(32).Push(0).Op(vm.RETURN)
	a.Label("sup")
	a.PushBig(new(big.Int).Exp(big.NewInt(10), big.NewInt(24), nil)).Push(0).Op(vm.MSTORE).Push(32).Push(0).Op(vm.RETURN)
	return a.Bytes()
}

// c10FakeRuntime: name()/symbol() -> "FAKE", decimals() -> 18, balanceOf(x) -> 2^100, totalSupply() -> 1, anything
// else (transfer, approve, ...) -> emits Transfer(msg.sender, erc20 module, calldata word 2) and returns true.
func c10FakeRuntime() []byte {
	module := common.BytesToAddress(authtypes.NewModuleAddress(erc20types.ModuleName).Bytes())
	a := evmasm.New()
	sel := func(hex string, label string) {
		a.Push(0).Op(vm.CALLDATALOAD).Push(224).Op(vm.SHR) // CALLDATALOAD(0) >> 224
		a.PushBytes(common.FromHex(hex)).Op(vm.EQ)
		a.Jumpi(label)
	}
	sel("0x06fdde03", "str")
	sel("0x95d89b41", "str")
	sel("0x313ce567", "dec")
	sel("0x70a08231", "bal")
	sel("0x18160ddd", "sup")
	// default: emit Transfer(caller, module, amount) with amount = calldata[36:68]
	a.Push(36).Op(vm.CALLDATALOAD).Push(0).Op(vm.MSTORE) // MSTORE(0, amount)
	a.PushAddr(module)                                   // topic2
	a.Op(vm.CALLER)                                      // CALLER topic1
	a.PushBytes(common.FromHex("0xddf252ad1be2c89b69c2b068fc378daa952ba7f163c4a11628f55a4df523b3ef"))
	a.Push(32).Push(0).Op(vm.LOG3) // LOG3(0, 32, t0, t1, t2)
	a.Push(1).Push(0).Op(vm.MSTORE).Push(32).Push(0).Op(vm.RETURN)
	a.Label("str")
	a.Push(32).Push(0).Op(vm.MSTORE)
	a.Push(4).Push(32).Op(vm.MSTORE)
	a.PushBytes(append([]byte("FAKE"), make([]byte, 28)...)).Push(64).Op(vm.MSTORE)
	a.Push(96).Push(0).Op(vm.RETURN)
	a.Label("dec")
	a.Push(18).Push(0).Op(vm.MSTORE).Push(32).Push(0).Op(vm.RETURN)
	a.Label("bal")
	a.PushBig(new(big.Int).Lsh(big.NewInt(1), 100)).Push(0).Op(vm.MSTORE).Push(32).Push(0).Op(vm.RETURN)
	a.Label("sup")
	a.Push(1).Push(0).Op(vm.MSTORE).Push(32).Push(0).Op(vm.RETURN)
	return a.Bytes()
}

type c10Pair struct {
	Denom       string
	Token       common.Address
	CoinOrig    bool
	Burned      *big.Int
	Defunct     bool   // the contract self-destructed
	Unbacked    bool   // a hook-path transfer minted coins without a matching escrow increase (listed finding)
	UnbackedKey string // the key under which that happened (names the token's behaviour at that moment)
	ArmMode     int    // over-transferring token: 0 honest, 1 moves 2n, 2 debits 2n and credits n
	HookOK      bool   // a hook-path transfer of this token succeeded
	Drained     bool   // the thief spent an allowance on the module's escrow that a hook-path transfer gave it
}

func runC10(st *ev.Stats, c C10Case) string {
	st.Eval()
	fail := func(key, what string) string { return st.Discrepancy(key, what, c) }
	users := []chain.Account{chain.Acct("c10-u0"), chain.Acct("c10-u1")}
	owner := chain.Acct("c10-owner")
	thief := common.HexToAddress("0x4dC6ac40Af078661fc43823086E1513635Eeab14")
	o := hOpts(History{NumVals: 1})
	o.Accounts = append([]chain.Account{owner}, users...)
	n := chain.NewNode(o)
	app := n.App
	price := big.NewInt(20_000_000_000)
	module := authtypes.NewModuleAddress(erc20types.ModuleName)
	moduleHex := common.BytesToAddress(module.Bytes())
	abi := contracts.ERC20MinterBurnerDecimalsContract.ABI
	n.BeginBlock(chain.BlockIn{})
	ethAs := func(signer chain.Account, to *common.Address, data []byte, gas uint64) (bool, string) {
		_, seq := txb.AccInfo(n.Ctx(), app, signer.Addr)
		res := n.DeliverTx(txb.EthTx(signer, txb.Eth{Type: 0, ChainID: big.NewInt(11235), Nonce: seq, To: to, Value: big.NewInt(0), Gas: gas, GasPrice: price, Data: data}))
		vm, _ := decodeEthResponse(res.Data)
		return res.Code == 0 && vm == "", res.Log + " " + vm
	}
	cosmosAs := func(signer chain.Account, gas uint64, msgs ...sdk.Msg) (bool, string) {
		num, seq := txb.AccInfo(n.Ctx(), app, signer.Addr)
		res := n.DeliverTx(txb.CosmosTx(signer, txb.Cosmos{Msgs: msgs, Gas: gas, Fee: coinsOfGas(gas, price), ChainID: chain.ChainID, AccNum: num, Seq: seq}))
		return res.Code == 0, res.Log
	}
	// ---- prelude: deploy, fund users with tokens, register ----
	deploy := func(bin []byte, ctor []byte) common.Address {
		_, seq := txb.AccInfo(n.Ctx(), app, owner.Addr)
		if ok, log := ethAs(owner, nil, append(append([]byte{}, bin...), ctor...), 7000000); !ok {
			panic("deploy failed: " + log)
		}
		return ethcrypto.CreateAddress(owner.Hex, seq)
	}
	pack := func(a interface {
		Pack(string, ...interface{}) ([]byte, error)
	}, m string, args ...interface{}) []byte {
		bz, err := a.Pack(m, args...)
		must(err)
		return bz
	}
	supply := new(big.Int).Exp(big.NewInt(10), big.NewInt(24), nil)
	t0 := deploy(contracts.ERC20MinterBurnerDecimalsContract.Bin, pack(abi, "", "Honest", "HON", uint8(18)))
	t1 := deploy(contracts.ERC20MaliciousDelayedContract.Bin, pack(contracts.ERC20MaliciousDelayedContract.ABI, "", supply))
	t2 := deploy(contracts.ERC20DirectBalanceManipulationContract.Bin, pack(contracts.ERC20DirectBalanceManipulationContract.ABI, "", supply))
	n.InstallCode(c10FakeAddr, c10FakeRuntime())
	ethAs(owner, &t0, pack(abi, "mint", owner.Hex, supply), 300000)
	t5 := deploy(contracts.ERC20MinterBurnerDecimalsContract.Bin, pack(abi, "", "Mortal", "MRT", uint8(18)))
	ethAs(owner, &t5, pack(abi, "mint", owner.Hex, supply), 300000)
	{
		ctx := n.Ctx()
		db := statedb.New(ctx, app.EvmKeeper, statedb.NewEmptyTxConfig(common.BytesToHash(ctx.HeaderHash().Bytes())))
		db.SetCode(c10QuirkAddr, c10QuirkRuntime())
		db.SetCode(c10BatchAddr, c10BatchRuntime())
		for _, u := range users {
			db.SetState(c10QuirkAddr, common.BytesToHash(u.Hex.Bytes()), common.BigToHash(new(big.Int).Exp(big.NewInt(10), big.NewInt(21), nil)))
		}
		must(db.Commit())
	}
	tokens := []common.Address{{}, t0, t1, t2, c10FakeAddr, t5, c10QuirkAddr}
	for _, u := range users {
		for _, tk := range []common.Address{t0, t1, t2, t5} {
			// (the manipulating token delivers only half of this; whatever arrives is the user's starting balance)
			ethAs(owner, &tk, pack(abi, "transfer", u.Hex, new(big.Int).Exp(big.NewInt(10), big.NewInt(21), nil)), 400000)
		}
	}
	pairs := make([]*c10Pair, 7)
	{
		ctx := n.Ctx()
		cctx, write := ctx.CacheContext()
		meta := banktypes.Metadata{Description: "example coin", Base: "uxmpl", Display: "xmpl", Name: "uxmpl", Symbol: "XMPL",
			DenomUnits: []*banktypes.DenomUnit{{Denom: "uxmpl", Exponent: 0}, {Denom: "xmpl", Exponent: 6}}}
		p, err := app.Erc20Keeper.RegisterCoin(cctx, meta)
		if err != nil {
			panic("register coin: " + err.Error())
		}
		pairs[0] = &c10Pair{Denom: "uxmpl", Token: p.GetERC20Contract(), CoinOrig: true, Burned: new(big.Int)}
		for i := 1; i < 7; i++ {
			q, err := app.Erc20Keeper.RegisterERC20(cctx, tokens[i])
			if err != nil {
				panic(fmt.Sprintf("register erc20 %d: %v", i, err))
			}
			pairs[i] = &c10Pair{Denom: q.Denom, Token: tokens[i], Burned: new(big.Int)}
		}
		cctx = cctx.WithEventManager(sdk.NewEventManager())
		app.AccountKeeper.SetAccount(cctx, app.AccountKeeper.NewAccountWithAddress(cctx, sdk.AccAddress(thief.Bytes())))
		write()
	}
	n.EndBlockCommit()
	n.BeginBlock(chain.BlockIn{})

	balOf := func(tk common.Address, who common.Address) *big.Int {
		b := app.Erc20Keeper.BalanceOf(n.Ctx(), abi, tk, who)
		if b == nil {
			return new(big.Int)
		}
		return b
	}
	totalSupply := func(tk common.Address) *big.Int {
		res, err := app.Erc20Keeper.CallEVM(n.Ctx(), abi, erc20types.ModuleAddress, tk, false, "totalSupply")
		if err != nil {
			return new(big.Int)
		}
		out, err := abi.Unpack("totalSupply", res.Ret)
		if err != nil || len(out) == 0 {
			return new(big.Int)
		}
		return out[0].(*big.Int)
	}
	type snap struct {
		Sup, ModTok, Esc, TS *big.Int
		UserCoin, UserTok    [2]*big.Int
	}
	observe := func(p *c10Pair) snap {
		ctx := n.Ctx()
		s := snap{Sup: app.BankKeeper.GetSupply(ctx, p.Denom).Amount.BigInt(), ModTok: balOf(p.Token, moduleHex),
			Esc: app.BankKeeper.GetBalance(ctx, module, p.Denom).Amount.BigInt(), TS: totalSupply(p.Token)}
		for i, u := range users {
			s.UserCoin[i] = app.BankKeeper.GetBalance(ctx, u.Addr, p.Denom).Amount.BigInt()
			s.UserTok[i] = balOf(p.Token, u.Hex)
		}
		return s
	}
	checkPeg := func(step int, op C10Op) string {
		for i, p := range pairs {
			if p.Defunct {
				continue
			}
			s := observe(p)
			if p.CoinOrig {
				want := new(big.Int).Sub(s.Esc, p.Burned)
				if s.TS.Cmp(want) != 0 {
					return fail("peg:coin-origin:"+op.K, fmt.Sprintf("after op %d %+v: ERC20 total supply %s, escrowed coins %s, burned by holders %s", step, op, s.TS, s.Esc, p.Burned))
				}
			} else if s.Sup.Cmp(s.ModTok) > 0 {
				key := "peg:" + c10PairNames[i] + ":" + op.K
				if p.Unbacked {
					key = p.UnbackedKey
				} else if p.Drained && p.HookOK {
					// one root cause whatever op follows: the hook path accepted a transfer that carried an Approval
					key = "hook-unchecked:allowance-drain:" + c10PairNames[i]
				}
				if msg := fail(key, fmt.Sprintf("after op %d %+v: coin supply %s exceeds the %s tokens the module holds", step, op, s.Sup, s.ModTok)); msg != "" {
					return msg
				}
				st.Class("known:" + key)
			}
		}
		return ""
	}
	var mixed [7]map[string]bool
	for i := range mixed {
		mixed[i] = map[string]bool{}
	}
	nonHonest := false
	for i, op := range c.Ops {
		p := pairs[op.Pair]
		A, B := users[op.A], users[op.B]
		before := observe(p)
		amt := bigOf(op.Amt)
		var ok bool
		var log string
		isMessage := false
		toThief := false
		switch op.K {
		case "destroy":
			// the token contract takes a self-destruct path (applied directly to the state: the stock contracts have none)
			if op.Pair != 5 || p.Defunct {
				continue
			}
			ctx := n.Ctx()
			db := statedb.New(ctx, app.EvmKeeper, statedb.NewEmptyTxConfig(common.BytesToHash(ctx.HeaderHash().Bytes())))
			db.Suicide(p.Token)
			must(db.Commit())
			p.Defunct = true
			st.Class("token-self-destructed")
			continue
		case "toggle":
			ctx := n.Ctx()
			cctx, write := ctx.CacheContext()
			if _, err := app.Erc20Keeper.ToggleConversion(cctx, p.Denom); err == nil {
				write()
			}
			continue
		case "convert-coin":
			if op.Mode == "all" {
				amt = new(big.Int).Add(before.UserCoin[op.A], big.NewInt(op.Off))
			}
			if amt.Sign() <= 0 {
				continue
			}
			isMessage = true
			ok, log = cosmosAs(A, 3000000, erc20types.NewMsgConvertCoin(sdk.NewCoin(p.Denom, sdkmath.NewIntFromBigInt(amt)), B.Hex, A.Addr))
		case "convert-erc20":
			if op.Mode == "all" {
				amt = new(big.Int).Add(before.UserTok[op.A], big.NewInt(op.Off))
			}
			if amt.Sign() <= 0 {
				continue
			}
			isMessage = true
			ok, log = cosmosAs(A, 3000000, erc20types.NewMsgConvertERC20(sdkmath.NewIntFromBigInt(amt), B.Addr, p.Token, A.Hex))
		case "hook":
			if op.Mode == "all" {
				amt = new(big.Int).Add(before.UserTok[op.A], big.NewInt(op.Off))
			}
			if amt.Sign() <= 0 {
				continue
			}
			ok, log = ethAs(A, &p.Token, pack(abi, "transfer", moduleHex, amt), 1000000)
		case "bank-send":
			if op.Mode == "all" {
				amt = new(big.Int).Add(new(big.Int).Add(before.UserCoin[op.A], before.UserTok[op.A]), big.NewInt(op.Off))
			}
			if amt.Sign() <= 0 || op.A == op.B {
				continue
			}
			isMessage = true
			if op.Off == 1 && op.Mode == "abs" {
				// the payee is the address the stock malicious tokens favour
				toThief = true
				ok, log = cosmosAs(A, 12000000, banktypes.NewMsgSend(A.Addr, sdk.AccAddress(thief.Bytes()), sdk.NewCoins(sdk.NewCoin(p.Denom, sdkmath.NewIntFromBigInt(amt)))))
				break
			}
			ok, log = cosmosAs(A, 12000000, banktypes.NewMsgSend(A.Addr, B.Addr, sdk.NewCoins(sdk.NewCoin(p.Denom, sdkmath.NewIntFromBigInt(amt)))))
		case "hook-batch":
			// one Ethereum transaction whose receipt carries two transfers to the module (a batch payer contract)
			if op.Mode == "all" {
				amt = new(big.Int).Quo(before.UserTok[op.A], big.NewInt(2))
			}
			if amt.Sign() <= 0 {
				continue
			}
			if ok, _ = ethAs(A, &p.Token, pack(abi, "transfer", c10BatchAddr, new(big.Int).Mul(amt, big.NewInt(2))), 1000000); !ok {
				st.Class("refused:fund-batcher:" + c10PairNames[op.Pair])
				continue
			}
			before = observe(p)
			ok, log = ethAs(A, &c10BatchAddr, append(common.LeftPadBytes(p.Token.Bytes(), 32), common.LeftPadBytes(amt.Bytes(), 32)...), 2000000)
		case "approve":
			// an allowance for the module is not a transfer
			ok, log = ethAs(A, &p.Token, pack(abi, "approve", moduleHex, amt), 400000)
		case "arm":
			if op.Pair != 6 {
				continue
			}
			mode := 1 + op.B
			if op.Off == -1 {
				mode = 5
			}
			if op.Off == 1 {
				mode = 6
			}
			ok, log = ethAs(A, &p.Token, common.FromHex(map[int]string{1: "0x0a11ce00", 2: "0x0a11ce02", 5: "0x0a11ce06", 6: "0x0a11ce07"}[mode]), 400000)
			if ok {
				p.ArmMode = mode
				st.Class(fmt.Sprintf("over-transfer-armed:mode%d", p.ArmMode))
			}
		case "burn":
			if !p.CoinOrig {
				continue
			}
			if op.Mode == "all" {
				amt = before.UserTok[op.A]
			}
			if amt.Sign() <= 0 {
				continue
			}
			ok, log = ethAs(A, &p.Token, pack(abi, "burn", amt), 400000)
			if ok {
				p.Burned.Add(p.Burned, amt)
			}
		case "thief":
			// the thief spends whatever allowance a token secretly gave it on the module's escrow (stands for the
			// thief's own transaction; it has no key in the harness)
			ctx := n.Ctx()
			cctx, write := ctx.CacheContext()
			take := new(big.Int).Set(before.ModTok)
			if lim := new(big.Int).Exp(big.NewInt(10), big.NewInt(18), nil); take.Cmp(lim) > 0 {
				take = lim
			}
			if take.Sign() > 0 && (op.Pair == 1 || op.Pair == 2 || op.Pair == 3 || op.Pair == 5) { // the real ERC20 implementations
				if _, err := app.Erc20Keeper.CallEVM(cctx, abi, thief, p.Token, true, "transferFrom", moduleHex, thief, take); err != nil {
					if os.Getenv("VERIF_DEBUG") != "" {
						fmt.Println("thief:", err, "allowance:", take)
					}
				} else {
					write()
					ok = true
					p.Drained = true
					st.Class("thief-drained:" + c10PairNames[op.Pair])
				}
			}
		}
		after := observe(p)
		if os.Getenv("VERIF_DEBUG") != "" {
			fmt.Printf("DEBUG C10 op %d %+v ok=%v log=%s\n   before %+v\n   after  %+v\n", i, op, ok, trunc(log), before, after)
		}
		name := c10PairNames[op.Pair]
		if p.ArmMode == 2 {
			name = "over-debiting"
		}
		if p.ArmMode == 5 {
			name = "returns-false"
		}
		if p.ArmMode == 6 {
			name = "reversing"
		}
		if p.Defunct {
			// a pair whose contract is gone is unregistered on first use; nothing may be minted or released through it
			changed := after.Sup.Cmp(before.Sup) != 0
			for u := range users {
				changed = changed || after.UserCoin[u].Cmp(before.UserCoin[u]) != 0 && op.K != "bank-send"
			}
			if changed {
				return fail("defunct-pair-effect:"+op.K, fmt.Sprintf("op %d %+v on a pair whose contract self-destructed changed the coin supply %s -> %s or balances", i, op, before.Sup, after.Sup))
			}
			st.Class("op-on-defunct-pair:" + op.K)
			if msg := checkPeg(i, op); msg != "" {
				return msg
			}
			continue
		}
		if ok {
			st.Class("ok:" + op.K + ":" + name)
			mixed[op.Pair][op.K] = true
			p.HookOK = p.HookOK || op.K == "hook" || op.K == "hook-batch"
			if op.Pair >= 2 {
				nonHonest = true
			}
		} else {
			st.Class("refused:" + op.K + ":" + name)
		}
		// a failed message changes nothing
		if isMessage && !ok {
			for u := range users {
				if after.UserCoin[u].Cmp(before.UserCoin[u]) != 0 && u != op.A || after.UserTok[u].Cmp(before.UserTok[u]) != 0 {
					return fail("failed-message-had-effect:"+op.K+":"+name, fmt.Sprintf("op %d %+v failed (%s) but user %d balances changed", i, op, trunc(log), u))
				}
			}
			if after.Sup.Cmp(before.Sup) != 0 || after.ModTok.Cmp(before.ModTok) != 0 || after.TS.Cmp(before.TS) != 0 {
				return fail("failed-message-had-effect:"+op.K+":"+name, fmt.Sprintf("op %d %+v failed (%s) but supply/escrow changed", i, op, trunc(log)))
			}
		}
		// both representations move by the same amount
		if !p.CoinOrig && op.K != "thief" {
			dSup, dMod := new(big.Int).Sub(after.Sup, before.Sup), new(big.Int).Sub(after.ModTok, before.ModTok)
			// honest tokens: equal; tokens may also be donated to the module without minting. Adversarial tokens may
			// over-escrow at their holder's expense, never the reverse.
			honest := op.Pair == 1 || op.Pair == 5
			if honest && dSup.Cmp(dMod) != 0 && !(dSup.Sign() == 0 && dMod.Sign() > 0) || !honest && dSup.Cmp(dMod) > 0 {
				if msg := fail(c10DeltaKey(op.K, name), fmt.Sprintf("op %d %+v (ok=%v): coin supply changed by %s but the module's token balance by %s", i, op, ok, dSup, dMod)); msg != "" {
					return msg
				}
				st.Class("known:" + c10DeltaKey(op.K, name))
				if !p.Unbacked && (op.K == "hook" || op.K == "hook-batch" || op.K == "approve" || op.K == "arm") {
					p.Unbacked, p.UnbackedKey = true, c10DeltaKey(op.K, name)
				}
				continue
			}
		}
		if ok && isMessage && op.K != "bank-send" {
			// the converting user: one representation debited by amt from A, the other credited by amt to B
			var debit, credit *big.Int
			if op.K == "convert-coin" {
				debit = new(big.Int).Sub(before.UserCoin[op.A], after.UserCoin[op.A])
				credit = new(big.Int).Sub(after.UserTok[op.B], before.UserTok[op.B])
			} else {
				debit = new(big.Int).Sub(before.UserTok[op.A], after.UserTok[op.A])
				credit = new(big.Int).Sub(after.UserCoin[op.B], before.UserCoin[op.B])
			}
			// what the chain controls is exact for every token; how much an adversarial token takes from its own holder
			// when the holder hands tokens in is the token's business (never less than what was escrowed)
			honestTok := op.Pair == 0 || op.Pair == 1 || op.Pair == 5
			debitOK := debit.Cmp(amt) == 0 || (!honestTok && op.K == "convert-erc20" && debit.Cmp(amt) > 0)
			if !debitOK || credit.Cmp(amt) != 0 {
				return fail("conversion-amount:"+op.K+":"+name, fmt.Sprintf("op %d %+v: debited %s, credited %s, requested %s", i, op, debit, credit, amt))
			}
		}
		if ok && op.K == "bank-send" && !toThief {
			// the payment arrives: the recipient's holdings of the pair (coins + tokens) grow by exactly the amount, and
			// the sender's shrink by it (an adversarial token may take more from its own holder, never less)
			hold := func(s snap, u int) *big.Int { return new(big.Int).Add(s.UserCoin[u], s.UserTok[u]) }
			got := new(big.Int).Sub(hold(after, op.B), hold(before, op.B))
			lost := new(big.Int).Sub(hold(before, op.A), hold(after, op.A))
			honestTok := op.Pair == 0 || op.Pair == 1 || op.Pair == 5 || (op.Pair == 6 && p.ArmMode == 0)
			if got.Cmp(amt) != 0 || lost.Cmp(amt) < 0 || (honestTok && lost.Cmp(amt) != 0) {
				return fail("bank-send-amount:"+name, fmt.Sprintf("op %d %+v reported success: the recipient's holdings grew by %s and the sender's shrank by %s, the message says %s", i, op, got, lost, amt))
			}
		}
		if msg := checkPeg(i, op); msg != "" {
			return msg
		}
	}
	for i := range mixed {
		if len(mixed[i]) >= 2 {
			st.Class("two-paths-on-one-pair:" + c10PairNames[i])
			st.NonTrivial(c)
		}
	}
	if nonHonest {
		st.NonTrivial(c)
	}
	return ""
}

var c10BatchAddr = common.HexToAddress("0xFa4e000000000000000000000000000000000003")

// c10BatchRuntime: calldata = token (32 bytes) | amount (32 bytes); calls token.transfer(erc20 module, amount) twice.
func c10BatchRuntime() []byte {
	module := common.BytesToAddress(authtypes.NewModuleAddress(erc20types.ModuleName).Bytes())
	a := evmasm.New()
	a.PushBytes(common.FromHex("0xa9059cbb")).Push(224).Op(vm.SHL).Push(0).Op(vm.MSTORE)
	a.PushAddr(module).Push(4).Op(vm.MSTORE)
	a.Push(32).Op(vm.CALLDATALOAD).Push(36).Op(vm.MSTORE)
	for k := 0; k < 2; k++ {
		a.Push(0).Push(0).Push(68).Push(0).Push(0).Push(0).Op(vm.CALLDATALOAD).Op(vm.GAS, vm.CALL, vm.POP)
	}
	a.Op(vm.STOP)
	return a.Bytes()
}

func c10DeltaKey(k, name string) string {
	if k == "hook" || k == "hook-batch" || k == "approve" || k == "arm" { // Ethereum transactions to the token: only the EVM hook can convert
		return "hook-unchecked:mint-without-escrow:" + name
	}
	return "peg-delta:" + k + ":" + name
}

func init() {
	replayers["TestC10_Peg"] = func(st *ev.Stats, raw json.RawMessage) string {
		var c C10Case
		must(json.Unmarshal(raw, &c))
		return runC10(st, c)
	}
}

func TestC10_Peg(t *testing.T) {
	st := ev.New("C10", "TestC10_Peg", "fresh chain with a coin-origin pair and four ERC20-origin pairs (honest, delayed-malicious, balance-manipulating, fake-event/misreporting token); 2-12 ops: MsgConvertCoin / MsgConvertERC20 (to self or another user, absolute or whole-balance ±1 amounts), ERC20 transfer to the module (EVM hook), ERC20-aware bank MsgSend, pair toggles, holder burns, the thief spending a secret allowance; non-trivial = >= 2 different successful conversion paths on one pair, or a successful op on a non-honest token")
	runCorpus(t, st)
	runRapid(t, st, 200, 20000, func(rt *rapid.T) {
		if msg := runC10(st, genC10(rt)); msg != "" {
			rt.Fatalf("%s", msg)
		}
	})
}
