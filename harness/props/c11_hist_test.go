package props

// C11 (b) — liquid vesting conserves backing and never unlocks early (histories).
//
// Fresh chain per case. Ops: apply a generated lockup schedule to one of two accounts (vested immediately), liquidate a
// part of the locked coins to a recipient, transfer the liquid ERC20 token, redeem part / all of a liquid denom into the
// redeemer itself, another vesting account, a plain account or a brand-new account, advance time.
// Oracles after every liquidate / redeem:
//  (1) native coins held by the liquidvesting module == sum over liquid denoms of the denom's bank supply;
//  (2) sum of the periods recorded for a denom == its supply;
//  (3) redeem credits exactly the redeemed amount to the recipient and burns exactly that much liquid token;
//  (4) lock conservation: for every future instant t', the total amount still locked at t' over all accounts and
//      all liquid denoms is the same before and after the operation (liquidation and redemption only MOVE locked
//      coins between an account schedule and a denom schedule; so nothing unlocks earlier - or later - than before).

import (
	"encoding/json"
	"fmt"
	"math/big"
	"strings"
	"testing"
	"time"

	sdkmath "cosmossdk.io/math"
	sdk "github.com/cosmos/cosmos-sdk/types"
	authtypes "github.com/cosmos/cosmos-sdk/x/auth/types"
	"github.com/ethereum/go-ethereum/common"
	"pgregory.net/rapid"

	"verif/chain"
	"verif/ev"
	"verif/txb"

	"github.com/haqq-network/haqq/contracts"
	lvtypes "github.com/haqq-network/haqq/x/liquidvesting/types"
	vestingtypes "github.com/haqq-network/haqq/x/vesting/types"
)

type C11Op struct {
	K    string    `json:"k"` // vest | liquidate | xfer | redeem | advance
	A    int       `json:"a"` // actor index
	B    int       `json:"b"` // recipient index
	D    int       `json:"d"` // denom index (mod existing)
	Num  int64     `json:"num"`
	Den  int64     `json:"den"` // amount = base * Num / Den (+ Off)
	Off  int64     `json:"off"`
	Dt   int64     `json:"dt"`
	Back int64     `json:"back"`
	Lock []PeriodJ `json:"lock,omitempty"`
}

type C11Case struct {
	Ops []C11Op `json:"ops"`
}

var c11Lens = []int64{30, 60, 61, 600, 3600, 86400}

func genC11Lock(t *rapid.T) []PeriodJ {
	total := new(big.Int).Mul(oneISLM, big.NewInt(rapid.SampledFrom([]int64{3000, 10000, 10001, 250000}).Draw(t, "total")))
	np := rapid.IntRange(1, 5).Draw(t, "np")
	rem := new(big.Int).Set(total)
	var out []PeriodJ
	for k := 0; k < np; k++ {
		take := new(big.Int).Set(rem)
		if k < np-1 {
			take.Mul(take, big.NewInt(int64(rapid.IntRange(1, 5).Draw(t, "frac"))))
			take.Quo(take, big.NewInt(6))
		}
		rem.Sub(rem, take)
		if take.Sign() > 0 {
			out = append(out, PeriodJ{Len: rapid.SampledFrom(c11Lens).Draw(t, "len"), Amt: []CoinJ{{chain.Denom, take.String()}}})
		}
	}
	return out
}

func genC11(t *rapid.T) C11Case {
	c := C11Case{}
	if rapid.Bool().Draw(t, "scenario") {
		// an older vesting account receives, before the liquid schedule ended, coins liquidated from a younger one
		c.Ops = append(c.Ops,
			C11Op{K: "vest", A: 0, Back: rapid.SampledFrom([]int64{0, 45, 1000}).Draw(t, "s-back"), Lock: genC11Lock(t)},
			C11Op{K: "advance", Dt: rapid.SampledFrom([]int64{1, 31, 100}).Draw(t, "s-dt0")},
			C11Op{K: "vest", A: 1, Back: 0, Lock: genC11Lock(t)},
			C11Op{K: "advance", Dt: rapid.SampledFrom([]int64{1, 29, 61}).Draw(t, "s-dt1")},
			C11Op{K: "liquidate", A: 1, B: rapid.SampledFrom([]int{2, 3, 0}).Draw(t, "s-to"), Num: rapid.Int64Range(1, 3).Draw(t, "s-num"), Den: 3},
			C11Op{K: "advance", Dt: rapid.SampledFrom([]int64{1, 30, 61}).Draw(t, "s-dt2")},
		)
		to := c.Ops[4].B
		c.Ops = append(c.Ops, C11Op{K: "redeem", A: to, B: rapid.SampledFrom([]int{0, 0, 1, 4}).Draw(t, "s-redeem-to"), D: 0, Num: rapid.Int64Range(1, 7).Draw(t, "s-rnum"), Den: 7})
	}
	n := rapid.IntRange(3, 10).Draw(t, "nops")
	for i := 0; i < n; i++ {
		kinds := []string{"vest", "liquidate", "liquidate", "xfer", "redeem", "redeem", "redeem", "advance", "advance"}
		if i == 0 && len(c.Ops) == 0 {
			kinds = []string{"vest"}
		}
		if i == 1 && len(c.Ops) == 1 {
			kinds = []string{"liquidate", "advance"}
		}
		op := C11Op{K: rapid.SampledFrom(kinds).Draw(t, "k")}
		op.A = rapid.IntRange(0, 3).Draw(t, "a")
		op.B = rapid.IntRange(0, 5).Draw(t, "b")
		op.D = rapid.IntRange(0, 3).Draw(t, "d")
		op.Den = rapid.SampledFrom([]int64{1, 2, 3, 7}).Draw(t, "den")
		op.Num = rapid.Int64Range(1, op.Den).Draw(t, "num")
		op.Off = rapid.SampledFrom([]int64{0, 0, 0, 1, -1}).Draw(t, "off")
		op.Dt = rapid.SampledFrom([]int64{1, 29, 30, 31, 61, 100, 3600, 90000}).Draw(t, "dt")
		op.Back = rapid.SampledFrom([]int64{0, 0, 10, 45, 1000}).Draw(t, "back")
		if op.K == "vest" {
			op.Lock = genC11Lock(t)
		}
		c.Ops = append(c.Ops, op)
	}
	return c
}

func runC11Hist(st *ev.Stats, c C11Case) string {
	st.Eval()
	fail := func(key, what string) string { return st.Discrepancy(key, what, c) }
	F := chain.Acct("c11-funder")
	actors := []chain.Account{chain.Acct("c11-v0"), chain.Acct("c11-v1"), chain.Acct("c11-u0"), chain.Acct("c11-u1")}
	recips := append(append([]chain.Account{}, actors...), chain.Acct("c11-plain"), chain.Acct("c11-fresh"))
	o := hOpts(History{NumVals: 1})
	o.Accounts = append([]chain.Account{F, chain.Acct("c11-plain")}, actors...)
	n := chain.NewNode(o)
	app := n.App
	price := big.NewInt(20_000_000_000)
	n.BeginBlock(chain.BlockIn{})
	modAddr := authtypes.NewModuleAddress(lvtypes.ModuleName)
	cosmosAs := func(signer chain.Account, gas uint64, msgs ...sdk.Msg) (uint32, string) {
		num, seq := txb.AccInfo(n.Ctx(), app, signer.Addr)
		res := n.DeliverTx(txb.CosmosTx(signer, txb.Cosmos{Msgs: msgs, Gas: gas, Fee: coinsOfGas(gas, price), ChainID: chain.ChainID, AccNum: num, Seq: seq}))
		return res.Code, res.Log
	}
	erc20 := contracts.ERC20MinterBurnerDecimalsContract.ABI
	holdings := func(a chain.Account, denom string) (*big.Int, common.Address) {
		ctx := n.Ctx()
		coin := app.BankKeeper.GetBalance(ctx, a.Addr, denom).Amount.BigInt()
		pair, found := app.Erc20Keeper.GetTokenPair(ctx, app.Erc20Keeper.GetTokenPairID(ctx, denom))
		if !found {
			return coin, common.Address{}
		}
		e := app.Erc20Keeper.BalanceOf(ctx, erc20, pair.GetERC20Contract(), a.Hex)
		if e == nil {
			e = new(big.Int)
		}
		return new(big.Int).Add(coin, e), pair.GetERC20Contract()
	}
	// total still locked at t' over all accounts and denoms
	lockedAt := func(tp int64) *big.Int {
		ctx := n.Ctx()
		sum := new(big.Int)
		for _, a := range recips {
			if va, ok := app.AccountKeeper.GetAccount(ctx, a.Addr).(*vestingtypes.ClawbackVestingAccount); ok {
				orig := bi(refOf(va.OriginalVesting), chain.Denom)
				var unl *big.Int
				if tp >= va.EndTime {
					unl = orig
				} else {
					unl = bi(stepAt(va.GetStartTime(), eventsOf(va.GetStartTime(), fromPeriods(va.LockupPeriods)), tp), chain.Denom)
				}
				sum.Add(sum, new(big.Int).Sub(orig, unl))
			}
		}
		for _, d := range app.LiquidVestingKeeper.GetAllDenoms(ctx) {
			tot := d.LockupPeriods.TotalAmount().AmountOf(chain.Denom).BigInt()
			start := d.StartTime.Unix()
			unl := bi(stepAt(start, eventsOf(start, fromPeriods(d.LockupPeriods)), tp), chain.Denom)
			if tp >= d.EndTime.Unix() {
				unl = tot
			}
			sum.Add(sum, new(big.Int).Sub(tot, unl))
		}
		return sum
	}
	probes := func() []int64 {
		ctx := n.Ctx()
		var lists [][]refEvent
		for _, a := range recips {
			if va, ok := app.AccountKeeper.GetAccount(ctx, a.Addr).(*vestingtypes.ClawbackVestingAccount); ok {
				lists = append(lists, eventsOf(va.GetStartTime(), fromPeriods(va.LockupPeriods)))
			}
		}
		for _, d := range app.LiquidVestingKeeper.GetAllDenoms(ctx) {
			lists = append(lists, eventsOf(d.StartTime.Unix(), fromPeriods(d.LockupPeriods)))
		}
		now := n.Header.Time.Unix()
		var out []int64
		for _, t := range probeTimes([]int64{now}, lists...) {
			if t >= now {
				out = append(out, t)
			}
		}
		return out
	}
	backing := func(step int, op C11Op) string {
		ctx := n.Ctx()
		sum := new(big.Int)
		for _, d := range app.LiquidVestingKeeper.GetAllDenoms(ctx) {
			sup := app.BankKeeper.GetSupply(ctx, d.BaseDenom).Amount.BigInt()
			per := d.LockupPeriods.TotalAmount().AmountOf(chain.Denom).BigInt()
			if sup.Cmp(per) != 0 {
				return fail("denom-schedule-vs-supply:"+op.K, fmt.Sprintf("op %d %+v: denom %s supply %s but its periods sum to %s", step, op, d.BaseDenom, sup, per))
			}
			sum.Add(sum, sup)
		}
		// supplies of denoms whose schedule was fully redeemed must be zero
		held := n.Balance(modAddr)
		if held.Cmp(sum) != 0 {
			return fail("module-backing:"+op.K, fmt.Sprintf("op %d %+v: module holds %s native coins, liquid supply is %s", step, op, held, sum))
		}
		return ""
	}
	var redeemedEarly, partial bool
	for i, op := range c.Ops {
		A := actors[op.A%len(actors)]
		B := recips[op.B%len(recips)]
		now := n.Header.Time
		switch op.K {
		case "advance":
			n.EndBlockCommit()
			n.BeginBlock(chain.BlockIn{Dt: time.Duration(op.Dt) * time.Second})
		case "vest":
			V := actors[op.A%2]
			cosmosAs(F, 1500000, vestingtypes.NewMsgConvertIntoVestingAccount(F.Addr, V.Addr, now.Add(-time.Duration(op.Back)*time.Second), toPeriods(op.Lock), nil, true, false, nil))
		case "xfer":
			denoms := app.LiquidVestingKeeper.GetAllDenoms(n.Ctx())
			if len(denoms) == 0 {
				continue
			}
			d := denoms[op.D%len(denoms)]
			have, token := holdings(A, d.BaseDenom)
			amt := new(big.Int).Quo(new(big.Int).Mul(have, big.NewInt(op.Num)), big.NewInt(op.Den))
			if amt.Sign() == 0 || (token == common.Address{}) {
				continue
			}
			data, err := erc20.Pack("transfer", B.Hex, amt)
			must(err)
			_, seq := txb.AccInfo(n.Ctx(), app, A.Addr)
			n.DeliverTx(txb.EthTx(A, txb.Eth{Type: 0, ChainID: big.NewInt(11235), Nonce: seq, To: &token, Value: big.NewInt(0), Gas: 300000, GasPrice: price, Data: data}))
		case "liquidate":
			V := actors[op.A%2]
			va, ok := app.AccountKeeper.GetAccount(n.Ctx(), V.Addr).(*vestingtypes.ClawbackVestingAccount)
			if !ok {
				continue
			}
			locked := va.GetLockedUpCoins(now).AmountOf(chain.Denom).BigInt()
			fullyVested := va.GetVestingCoins(now).IsZero() // liquidation is offered only once everything has vested
			amt := new(big.Int).Quo(new(big.Int).Mul(locked, big.NewInt(op.Num)), big.NewInt(op.Den))
			amt.Add(amt, big.NewInt(op.Off))
			if amt.Sign() <= 0 {
				continue
			}
			pts := probes()
			before := map[int64]*big.Int{}
			for _, t := range pts {
				before[t] = lockedAt(t)
			}
			modBefore := n.Balance(modAddr)
			code, log := cosmosAs(V, 20000000, lvtypes.NewMsgLiquidate(V.Addr, B.Addr, sdk.NewCoin(chain.Denom, sdkmath.NewIntFromBigInt(amt))))
			if code != 0 {
				st.Class("liquidate-refused")
				if fullyVested && amt.Cmp(locked) <= 0 && amt.Cmp(new(big.Int).Mul(oneISLM, big.NewInt(1000))) >= 0 && !strings.Contains(log, "out of gas") && app.AccountKeeper.GetAccount(n.Ctx(), B.Addr) != nil {
					return fail("valid-liquidation-refused", fmt.Sprintf("op %d %+v: liquidating %s of %s locked failed: %s", i, op, amt, locked, trunc(log)))
				}
				continue
			}
			st.Class("liquidated")
			if op.Num != op.Den {
				partial = true
			}
			if d := new(big.Int).Sub(n.Balance(modAddr), modBefore); d.Cmp(amt) != 0 {
				return fail("liquidate-escrow", fmt.Sprintf("op %d: module received %s, liquidated %s", i, d, amt))
			}
			for _, t := range append(pts, probes()...) {
				b, ok := before[t]
				if !ok {
					continue
				}
				if a := lockedAt(t); a.Cmp(b) != 0 {
					key := "early-unlock:liquidate"
					if a.Cmp(b) > 0 {
						key = "late-unlock:liquidate"
					}
					return fail(key, fmt.Sprintf("op %d %+v: total locked at t'=%d (now %d) was %s, after liquidation %s", i, op, t, now.Unix(), b, a))
				}
			}
			if msg := backing(i, op); msg != "" {
				return msg
			}
		case "redeem":
			denoms := app.LiquidVestingKeeper.GetAllDenoms(n.Ctx())
			if len(denoms) == 0 {
				continue
			}
			d := denoms[op.D%len(denoms)]
			have, _ := holdings(A, d.BaseDenom)
			amt := new(big.Int).Quo(new(big.Int).Mul(have, big.NewInt(op.Num)), big.NewInt(op.Den))
			amt.Add(amt, big.NewInt(op.Off))
			if amt.Sign() <= 0 {
				continue
			}
			pts := probes()
			before := map[int64]*big.Int{}
			for _, t := range pts {
				before[t] = lockedAt(t)
			}
			recvBefore := n.Balance(B.Addr)
			supBefore := app.BankKeeper.GetSupply(n.Ctx(), d.BaseDenom).Amount.BigInt()
			wasVesting := false
			var recvStart int64
			if va, ok := app.AccountKeeper.GetAccount(n.Ctx(), B.Addr).(*vestingtypes.ClawbackVestingAccount); ok {
				wasVesting, recvStart = true, va.GetStartTime()
			}
			code, log := cosmosAs(A, 10000000, lvtypes.NewMsgRedeem(A.Addr, B.Addr, sdk.NewCoin(d.BaseDenom, sdkmath.NewIntFromBigInt(amt))))
			if code != 0 {
				st.Class("redeem-refused")
				if amt.Cmp(have) <= 0 && B.Label != "c11-fresh" && !strings.Contains(log, "out of gas") {
					return fail("valid-redeem-refused", fmt.Sprintf("op %d %+v: redeeming %s of %s held failed: %s", i, op, amt, have, trunc(log)))
				}
				continue
			}
			st.Class("redeemed")
			credited := new(big.Int).Sub(n.Balance(B.Addr), recvBefore)
			if A.Addr.Equals(B.Addr) {
				credited.Add(credited, new(big.Int).Mul(price, big.NewInt(10000000))) // the redeemer paid the fee from the same account
			}
			if credited.Cmp(amt) != 0 {
				return fail("redeem-amount", fmt.Sprintf("op %d %+v: recipient credited %s, redeemed %s", i, op, credited, amt))
			}
			if burned := new(big.Int).Sub(supBefore, app.BankKeeper.GetSupply(n.Ctx(), d.BaseDenom).Amount.BigInt()); burned.Cmp(amt) != 0 {
				return fail("redeem-burn", fmt.Sprintf("op %d: liquid supply fell by %s, redeemed %s", i, burned, amt))
			}
			for _, t := range append(pts, probes()...) {
				b, ok := before[t]
				if !ok {
					continue
				}
				if a := lockedAt(t); a.Cmp(b) != 0 {
					key := "early-unlock:redeem"
					if a.Cmp(b) > 0 {
						key = "late-unlock:redeem"
					}
					return fail(key, fmt.Sprintf("op %d %+v: total locked at t'=%d (now %d) was %s, after redeem %s (recipient %s vesting before=%v)", i, op, t, now.Unix(), b, a, B.Label, wasVesting))
				}
			}
			if msg := backing(i, op); msg != "" {
				return msg
			}
			if now.Unix() < d.EndTime.Unix() && wasVesting && recvStart < d.StartTime.Unix() {
				redeemedEarly = true
			}
			if op.Num != op.Den {
				partial = true
			}
		}
	}
	if redeemedEarly {
		st.Class("redeem-into-older-vesting-account-before-end")
	}
	if partial {
		st.Class("partial-amounts")
	}
	if redeemedEarly {
		st.NonTrivial(c)
	}
	return ""
}

func init() {
	replayers["TestC11_History"] = func(st *ev.Stats, raw json.RawMessage) string {
		var c C11Case
		must(json.Unmarshal(raw, &c))
		return runC11Hist(st, c)
	}
}

func TestC11_History(t *testing.T) {
	st := ev.New("C11", "TestC11_History", "fresh chain; 3-10 ops: apply generated lockup schedules (1-5 periods) to two accounts, liquidate fractions (k/1,2,3,7 ±1) of the locked coins to various recipients, transfer the liquid ERC20, redeem fractions / all into self, the other vesting account, plain and new accounts, time jumps across period boundaries; non-trivial = a redeem before the denom's schedule ended into a vesting account whose own schedule started earlier")
	runCorpus(t, st)
	runRapid(t, st, 320, 10000, func(rt *rapid.T) {
		if msg := runC11Hist(st, genC11(rt)); msg != "" {
			rt.Fatalf("%s", msg)
		}
	})
}
