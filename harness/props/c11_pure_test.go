package props

// C11 (a) — SubtractAmountFromPeriods splits a lockup schedule exactly.

import (
	"encoding/json"
	"fmt"
	"math/big"
	"testing"

	sdkmath "cosmossdk.io/math"
	sdk "github.com/cosmos/cosmos-sdk/types"
	"pgregory.net/rapid"

	"verif/ev"

	lvtypes "github.com/haqq-network/haqq/x/liquidvesting/types"
)

type C11SplitCase struct {
	Periods []PeriodJ `json:"periods"`
	Denom   string    `json:"denom"`
	Mode    string    `json:"mode"` // abs | total (total + Off) | frac (total*Num/Den)
	Off     int64     `json:"off"`
	Num     int64     `json:"num"`
	Den     int64     `json:"den"`
	Abs     string    `json:"abs"`
}

func genC11Split(t *rapid.T) C11SplitCase {
	c := C11SplitCase{}
	nd := rapid.IntRange(1, 3).Draw(t, "ndenoms")
	c.Periods = genPeriods(t, "p", 1, 12, false, nd, true)
	// sdk.Int is a 256-bit integer and the split multiplies two amounts: keep amounts below 10^36 (the native supply
	// cap is 10^29), otherwise the product overflows by construction of the type, not of the function
	for i := range c.Periods {
		for j := range c.Periods[i].Amt {
			if a := c.Periods[i].Amt[j].Amt; len(a) > 36 {
				c.Periods[i].Amt[j].Amt = a[:36]
			}
		}
	}
	c.Denom = schedDenoms[rapid.IntRange(0, nd-1).Draw(t, "denom")]
	switch rapid.IntRange(0, 5).Draw(t, "mode") {
	case 0:
		c.Mode = "abs"
		c.Abs = rapid.SampledFrom([]string{"0", "1", "2", "3", "11", "1000", "1000000000000000000"}).Draw(t, "abs")
	case 1:
		c.Mode = "total"
		c.Off = rapid.SampledFrom([]int64{0, 0, -1, 1, -2, -7}).Draw(t, "off")
	default:
		c.Mode = "frac"
		c.Den = rapid.SampledFrom([]int64{2, 3, 7, 10, 1000, 999983}).Draw(t, "den")
		c.Num = rapid.Int64Range(1, c.Den).Draw(t, "num")
	}
	return c
}

func runC11Split(st *ev.Stats, c C11SplitCase) string {
	st.Eval()
	fail := func(key, what string) string { return st.Discrepancy(key, what, c) }
	periods := toPeriods(c.Periods)
	orig := toPeriods(c.Periods)
	total := new(big.Int)
	for _, p := range c.Periods {
		total.Add(total, bi(refOf(p.coins()), c.Denom))
	}
	var sub *big.Int
	switch c.Mode {
	case "abs":
		sub, _ = new(big.Int).SetString(c.Abs, 10)
	case "total":
		sub = new(big.Int).Add(total, big.NewInt(c.Off))
	default:
		sub = new(big.Int).Mul(total, big.NewInt(c.Num))
		sub.Quo(sub, big.NewInt(c.Den))
	}
	if sub.Sign() < 0 {
		sub = new(big.Int)
	}
	dec, diff, err := lvtypes.SubtractAmountFromPeriods(periods, sdk.NewCoin(c.Denom, sdkmath.NewIntFromBigInt(sub)))
	// the input list must not be modified (callers keep using it)
	if fmt.Sprint(fromPeriods(periods)) != fmt.Sprint(fromPeriods(orig)) {
		return fail("split:mutates-input", "SubtractAmountFromPeriods modified its input periods")
	}
	if sub.Cmp(total) > 0 {
		if err == nil {
			return fail("split:oversubtract-accepted", fmt.Sprintf("subtracting %s from a schedule holding %s succeeded", sub, total))
		}
		st.Class("rejected-over-total")
		return ""
	}
	if err != nil {
		if total.Sign() == 0 {
			st.Class("rejected-empty-total")
			return ""
		}
		return fail("split:valid-rejected", fmt.Sprintf("subtracting %s from %s failed: %v", sub, total, err))
	}
	if len(dec) != len(orig) || len(diff) != len(orig) {
		return fail("split:length", fmt.Sprintf("got %d decreased and %d diff periods for %d input periods", len(dec), len(diff), len(orig)))
	}
	sum := new(big.Int)
	for i := range orig {
		if dec[i].Length != orig[i].Length || diff[i].Length != orig[i].Length {
			return fail("split:period-length", fmt.Sprintf("period %d length changed", i))
		}
		if dec[i].Amount.IsAnyNegative() || diff[i].Amount.IsAnyNegative() {
			return fail("split:negative", fmt.Sprintf("period %d negative part: left %s moved %s", i, dec[i].Amount, diff[i].Amount))
		}
		o, d, m := refOf(orig[i].Amount), refOf(dec[i].Amount), refOf(diff[i].Amount)
		if !d.add(m).eq(o) {
			return fail("split:period-sum", fmt.Sprintf("period %d: left %s + moved %s != original %s", i, d, m, o))
		}
		for dn, v := range m {
			if dn != c.Denom && v.Sign() != 0 {
				return fail("split:foreign-denom", fmt.Sprintf("period %d moved %s of a denom that was not requested", i, dn))
			}
		}
		sum.Add(sum, bi(m, c.Denom))
	}
	if sum.Cmp(sub) != 0 {
		return fail("split:moved-total", fmt.Sprintf("moved total %s != requested %s", sum, sub))
	}
	// residue present?
	floorSum := new(big.Int)
	for _, p := range c.Periods {
		x := new(big.Int).Mul(bi(refOf(p.coins()), c.Denom), sub)
		floorSum.Add(floorSum, x.Quo(x, total))
	}
	if floorSum.Cmp(sub) != 0 {
		st.Class("has-residue")
		st.NonTrivial(c)
	}
	if sub.Cmp(total) == 0 {
		st.Class("subtract-everything")
	}
	if sub.Sign() == 0 {
		st.Class("subtract-zero")
	}
	return ""
}

func init() {
	replayers["TestC11_Split"] = func(st *ev.Stats, raw json.RawMessage) string {
		var c C11SplitCase
		must(json.Unmarshal(raw, &c))
		return runC11Split(st, c)
	}
}

func TestC11_Split(t *testing.T) {
	st := ev.New("C11", "TestC11_Split", "period list (1-12 periods, up to 3 denoms, amounts up to 2^200) and a subtrahend (absolute, total±k, or a fraction of the total); non-trivial = the proportional floors leave a residue that must be pushed to the tail")
	runCorpus(t, st)
	runRapid(t, st, 8000, 1000000, func(rt *rapid.T) {
		if msg := runC11Split(st, genC11Split(rt)); msg != "" {
			rt.Fatalf("%s", msg)
		}
	})
}
