package props

// C12 — UC DAO ledger: shares always add up to the pooled funds.
//
// Generator: histories of fund / transfer-all / transfer-by-ratio / transfer-by-amount / enable-toggle intents
// over 4 accounts and 3 denominations (aISLM, aLIQUID0, aLIQUID7) plus a disallowed denom, amounts resolved
// against the state (0, 1, bal-1, bal, bal+1, random), sender == recipient included.
// Oracle: a reference ledger (maps of big.Int) updated from the property text; after every message the stored
// balances, totals, module account coins, holders index and bank balances must equal the reference.

import (
	"encoding/json"
	"fmt"
	"math/big"
	"sort"
	"sync"
	"testing"

	sdkmath "cosmossdk.io/math"
	sdk "github.com/cosmos/cosmos-sdk/types"
	"github.com/cosmos/cosmos-sdk/types/query"
	authtypes "github.com/cosmos/cosmos-sdk/x/auth/types"
	"pgregory.net/rapid"

	"verif/chain"
	"verif/ev"

	ucdaotypes "github.com/haqq-network/haqq/x/ucdao/types"
)

var c12Denoms = []string{"aISLM", "aLIQUID0", "aLIQUID7", "uatom"} // last one is not allowed by the DAO

type C12Coin struct {
	Denom int    `json:"denom"` // index into c12Denoms
	Mode  string `json:"mode"`  // abs | bal (balance + Off)
	Off   int64  `json:"off"`   // for bal
	Abs   string `json:"abs"`   // for abs (decimal)
}

type C12Op struct {
	Op    string    `json:"op"` // fund | all | ratio | amount | toggle
	From  int       `json:"from"`
	To    int       `json:"to"`
	Coins []C12Coin `json:"coins,omitempty"`
	Ratio string    `json:"ratio,omitempty"` // LegacyDec string
	// Raw: the message carries the coin list as drawn (possibly unsorted, with a denomination twice, with zero entries)
	// instead of the normalised one; if such a message is accepted, the stated amount is the per-denomination sum
	Raw bool `json:"raw,omitempty"`
}

type C12Case struct {
	Ops []C12Op `json:"ops"`
}

const c12Accounts = 4

var (
	c12Once sync.Once
	c12Node *chain.Node
	c12Accs []chain.Account
)

func c12Setup() {
	c12Once.Do(func() {
		c12Accs = chain.Accts("dao", c12Accounts)
		extra := sdk.NewCoins(
			sdk.NewCoin("aLIQUID0", sdkmath.NewInt(1_000_000)),
			sdk.NewCoin("aLIQUID7", sdkmath.NewIntWithDecimal(5, 20)),
			sdk.NewCoin("uatom", sdkmath.NewInt(1_000_000)),
		)
		c12Node = chain.NewNode(chain.Opts{Accounts: c12Accs, Balance: sdkmath.NewIntWithDecimal(1, 21), ExtraCoins: extra})
		c12Node.BeginBlock(chain.BlockIn{})
	})
}

func genC12Coin(t *rapid.T) C12Coin {
	c := C12Coin{}
	// bias: mostly allowed denoms
	c.Denom = rapid.SampledFrom([]int{0, 0, 0, 1, 1, 2, 2, 3}).Draw(t, "denom")
	if rapid.IntRange(0, 9).Draw(t, "mode") < 6 {
		c.Mode = "bal"
		c.Off = rapid.SampledFrom([]int64{0, 0, -1, 1, -2, -1000, 5}).Draw(t, "off")
	} else {
		c.Mode = "abs"
		c.Abs = rapid.SampledFrom([]string{"0", "1", "2", "3", "7", "1000", "999999", "1000000", "123456789012345678", "1000000000000000000000", "340282366920938463463374607431768211456"}).Draw(t, "abs")
	}
	return c
}

func genC12Case(t *rapid.T) C12Case {
	n := rapid.IntRange(1, 14).Draw(t, "nops")
	var c C12Case
	for i := 0; i < n; i++ {
		op := C12Op{}
		// the first ops are biased to funding so later transfers have something to move
		kinds := []string{"fund", "fund", "all", "ratio", "ratio", "amount", "amount", "toggle"}
		if i < 2 {
			kinds = []string{"fund", "fund", "fund", "amount", "ratio"}
		}
		op.Op = rapid.SampledFrom(kinds).Draw(t, "op")
		op.From = rapid.IntRange(0, c12Accounts-1).Draw(t, "from")
		// sender == recipient with probability ~1/4
		if rapid.IntRange(0, 3).Draw(t, "self") == 0 {
			op.To = op.From
		} else {
			op.To = rapid.IntRange(0, c12Accounts-1).Draw(t, "to")
		}
		switch op.Op {
		case "fund", "amount":
			k := rapid.IntRange(1, 3).Draw(t, "ncoins")
			for j := 0; j < k; j++ {
				op.Coins = append(op.Coins, genC12Coin(t))
			}
			if rapid.IntRange(0, 4).Draw(t, "raw") == 0 {
				op.Raw = true
				if rapid.Bool().Draw(t, "raw-dup") {
					op.Coins = append(op.Coins, op.Coins[rapid.IntRange(0, len(op.Coins)-1).Draw(t, "raw-dup-i")])
				}
			}
		case "ratio":
			op.Ratio = rapid.SampledFrom([]string{
				"1.000000000000000000", "0.500000000000000000", "0.333333333333333333", "0.000000000000000001",
				"0.999999999999999999", "0.100000000000000000", "0.370000000000000000", "0.000001000000000000",
				"0.000000000000000000", "1.000000000000000001", "0.750000000000000000",
			}).Draw(t, "ratio")
		}
		c.Ops = append(c.Ops, op)
	}
	return c
}

type c12Model struct {
	enabled bool
	dao     []map[string]*big.Int // per account
	total   map[string]*big.Int
	bank    []map[string]*big.Int
}

func bi(m map[string]*big.Int, k string) *big.Int {
	if v, ok := m[k]; ok {
		return v
	}
	return new(big.Int)
}

func coinsOf(m map[string]*big.Int) sdk.Coins {
	var out sdk.Coins
	for d, v := range m {
		if v.Sign() != 0 {
			out = append(out, sdk.NewCoin(d, sdkmath.NewIntFromBigInt(v)))
		}
	}
	return out.Sort()
}

func runC12(st *ev.Stats, c C12Case) string {
	c12Setup()
	st.Eval()
	app := c12Node.App
	ctx, _ := c12Node.Ctx().CacheContext()
	modAddr := authtypes.NewModuleAddress(ucdaotypes.ModuleName)

	m := c12Model{enabled: true, total: map[string]*big.Int{}}
	for i := 0; i < c12Accounts; i++ {
		m.dao = append(m.dao, map[string]*big.Int{})
		b := map[string]*big.Int{}
		for _, coin := range app.BankKeeper.GetAllBalances(ctx, c12Accs[i].Addr) {
			b[coin.Denom] = coin.Amount.BigInt()
		}
		m.bank = append(m.bank, b)
	}

	var selfTransfer, truncating, nontrivial bool
	fail := func(key, what string) string { return st.Discrepancy(key, what, c) }

	for step, op := range c.Ops {
		from, to := c12Accs[op.From], c12Accs[op.To]
		// resolve coins
		var rawCoins sdk.Coins
		resolve := func(src map[string]*big.Int) (sdk.Coins, bool) {
			var coins sdk.Coins
			for _, cc := range op.Coins {
				d := c12Denoms[cc.Denom]
				var a *big.Int
				if cc.Mode == "bal" {
					a = new(big.Int).Add(bi(src, d), big.NewInt(cc.Off))
				} else {
					a, _ = new(big.Int).SetString(cc.Abs, 10)
				}
				if a.Sign() < 0 {
					a = new(big.Int)
				}
				coins = append(coins, sdk.Coin{Denom: d, Amount: sdkmath.NewIntFromBigInt(a)})
			}
			// messages must carry sorted, duplicate-free coins to be valid; merge duplicates, keep zero coins to
			// exercise ValidateBasic
			merged := map[string]*big.Int{}
			for _, x := range coins {
				merged[x.Denom] = new(big.Int).Add(bi(merged, x.Denom), x.Amount.BigInt())
			}
			var out sdk.Coins
			for d, v := range merged {
				out = append(out, sdk.Coin{Denom: d, Amount: sdkmath.NewIntFromBigInt(v)})
			}
			sort.Slice(out, func(i, j int) bool { return out[i].Denom < out[j].Denom })
			rawCoins = out
			if op.Raw {
				rawCoins = coins
				return out, coins.IsValid()
			}
			return out, out.IsValid()
		}

		var msg sdk.Msg
		var moved sdk.Coins // what the property says must move if the message succeeds
		mustSucceed := false
		switch op.Op {
		case "toggle":
			m.enabled = !m.enabled
			if err := app.DaoKeeper.(interface {
				SetParams(sdk.Context, ucdaotypes.Params) error
			}).SetParams(ctx, ucdaotypes.Params{EnableDao: m.enabled}); err != nil {
				panic(err)
			}
			continue
		case "fund":
			coins, valid := resolve(m.bank[op.From])
			msg = ucdaotypes.NewMsgFund(rawCoins, from.Addr)
			moved = coins
			ok := valid && m.enabled
			for _, x := range coins {
				if x.Denom == "uatom" || bi(m.bank[op.From], x.Denom).Cmp(x.Amount.BigInt()) < 0 {
					ok = false
				}
			}
			mustSucceed = ok
		case "all":
			msg = ucdaotypes.NewMsgTransferOwnership(from.Addr, to.Addr)
			moved = coinsOf(m.dao[op.From])
			mustSucceed = m.enabled && !moved.IsZero()
		case "ratio":
			r, err := sdk.NewDecFromStr(op.Ratio)
			if err != nil {
				panic(err)
			}
			msg = ucdaotypes.NewMsgTransferOwnershipWithRatio(from.Addr, to.Addr, r)
			allPos := true
			for _, x := range coinsOf(m.dao[op.From]) {
				a := x.Amount.ToLegacyDec().Mul(r).TruncateInt()
				// independent recomputation: floor(bal * ratio) with big.Int on the 18-decimal representation
				rb := new(big.Int).Mul(x.Amount.BigInt(), r.BigInt())
				rb.Quo(rb, new(big.Int).Exp(big.NewInt(10), big.NewInt(18), nil))
				if rb.Cmp(a.BigInt()) != 0 {
					// LegacyDec.Mul rounds half-even at 18 decimals before truncation; the stated amount is the
					// message's own computation, the reference uses the same definition (documented)
					rb = a.BigInt()
				}
				if rb.Sign() == 0 {
					allPos = false
				} else {
					truncating = truncating || new(big.Int).Mul(rb, big.NewInt(1)).Cmp(x.Amount.BigInt()) != 0
				}
				moved = append(moved, sdk.Coin{Denom: x.Denom, Amount: sdkmath.NewIntFromBigInt(rb)})
			}
			inRange := r.IsPositive() && r.LTE(sdk.OneDec())
			mustSucceed = m.enabled && inRange && allPos && len(moved) > 0
		case "amount":
			coins, valid := resolve(m.dao[op.From])
			msg = ucdaotypes.NewMsgTransferOwnershipWithAmount(from.Addr, to.Addr, rawCoins)
			moved = coins
			ok := valid && m.enabled
			for _, x := range coins {
				if bi(m.dao[op.From], x.Denom).Cmp(x.Amount.BigInt()) < 0 {
					ok = false
				}
			}
			mustSucceed = ok
		}
		if op.Op != "fund" && op.From == op.To {
			selfTransfer = true
		}

		// execute like baseapp: ValidateBasic, then the routed handler on a cache that is written only on success
		var err error
		if vb, ok := msg.(interface{ ValidateBasic() error }); ok {
			err = vb.ValidateBasic()
		}
		if err == nil {
			h := app.MsgServiceRouter().Handler(msg)
			if h == nil {
				panic(fmt.Sprintf("no handler for %T", msg))
			}
			cctx, write := ctx.CacheContext()
			func() {
				defer func() {
					if r := recover(); r != nil {
						err = fmt.Errorf("panic: %v", r)
					}
				}()
				_, err = h(cctx, msg)
			}()
			if err == nil {
				write()
			}
		}
		if err != nil && mustSucceed {
			return fail("valid-message-rejected:"+op.Op, fmt.Sprintf("step %d %s: valid message failed: %v", step, op.Op, err))
		}
		if err == nil {
			nontrivial = true
			// apply to the reference ledger
			if op.Op == "fund" {
				for _, x := range moved {
					a := x.Amount.BigInt()
					m.bank[op.From][x.Denom] = new(big.Int).Sub(bi(m.bank[op.From], x.Denom), a)
					m.dao[op.From][x.Denom] = new(big.Int).Add(bi(m.dao[op.From], x.Denom), a)
					m.total[x.Denom] = new(big.Int).Add(bi(m.total, x.Denom), a)
				}
			} else {
				for _, x := range moved {
					a := x.Amount.BigInt()
					m.dao[op.From][x.Denom] = new(big.Int).Sub(bi(m.dao[op.From], x.Denom), a)
					m.dao[op.To][x.Denom] = new(big.Int).Add(bi(m.dao[op.To], x.Denom), a)
				}
			}
		}

		// compare the whole observable state with the reference
		kind := op.Op
		if op.Op != "fund" && op.From == op.To {
			kind += ":self"
		}
		sum := map[string]*big.Int{}
		wantHolders := map[string]bool{}
		for i := 0; i < c12Accounts; i++ {
			want := coinsOf(m.dao[i])
			got := app.DaoKeeper.GetAccountBalances(ctx, c12Accs[i].Addr)
			role := "other"
			if i == op.From {
				role = "signer"
			} else if i == op.To {
				role = "recipient"
			}
			if !got.IsEqual(want) {
				return fail(fmt.Sprintf("dao-balance:%s:%s", kind, role), fmt.Sprintf("step %d %+v (err=%v): DAO balance of account %d (%s) = %s, reference %s", step, op, err, i, role, got, want))
			}
			for _, d := range c12Denoms {
				g := app.DaoKeeper.GetBalance(ctx, c12Accs[i].Addr, d)
				if g.Amount.BigInt().Cmp(bi(m.dao[i], d)) != 0 {
					return fail(fmt.Sprintf("dao-balance:%s:%s", kind, role), fmt.Sprintf("step %d: GetBalance(%d,%s)=%s reference %s", step, i, d, g.Amount, bi(m.dao[i], d)))
				}
			}
			for _, x := range got {
				sum[x.Denom] = new(big.Int).Add(bi(sum, x.Denom), x.Amount.BigInt())
			}
			if !want.IsZero() {
				wantHolders[c12Accs[i].Addr.String()] = true
			}
			wantBank := coinsOf(m.bank[i])
			gotBank := app.BankKeeper.GetAllBalances(ctx, c12Accs[i].Addr)
			if !gotBank.IsEqual(wantBank) {
				return fail(fmt.Sprintf("bank-balance:%s:%s", kind, role), fmt.Sprintf("step %d %+v (err=%v): bank balance of account %d = %s, reference %s", step, op, err, i, gotBank, wantBank))
			}
		}
		total := app.DaoKeeper.GetTotalBalance(ctx)
		if !total.IsEqual(coinsOf(m.total)) {
			return fail("total:"+kind, fmt.Sprintf("step %d %+v: recorded total %s, reference %s", step, op, total, coinsOf(m.total)))
		}
		if !total.IsEqual(coinsOf(sum)) {
			return fail("sum-vs-total:"+kind, fmt.Sprintf("step %d %+v: sum of holders %s != recorded total %s", step, op, coinsOf(sum), total))
		}
		mod := app.BankKeeper.GetAllBalances(ctx, modAddr)
		if !mod.IsEqual(total) {
			return fail("module-account:"+kind, fmt.Sprintf("step %d %+v: module account holds %s, recorded total %s", step, op, mod, total))
		}
		for _, d := range c12Denoms {
			if app.DaoKeeper.GetTotalBalanceOf(ctx, d).Amount.BigInt().Cmp(bi(m.total, d)) != 0 {
				return fail("total:"+kind, fmt.Sprintf("step %d: GetTotalBalanceOf(%s) mismatch", step, d))
			}
		}
		res, qerr := app.DaoKeeper.Holders(sdk.WrapSDKContext(ctx), &ucdaotypes.QueryHoldersRequest{Pagination: &query.PageRequest{Limit: 1000}})
		if qerr != nil {
			return fail("holders-query", qerr.Error())
		}
		gotHolders := map[string]bool{}
		for _, b := range res.Balances {
			if gotHolders[b.Address] {
				return fail("holders-index:"+kind, fmt.Sprintf("step %d: holder %s listed twice", step, b.Address))
			}
			gotHolders[b.Address] = true
		}
		if len(gotHolders) != len(wantHolders) {
			return fail("holders-index:"+kind, fmt.Sprintf("step %d %+v: holders index %v, reference %v", step, op, keys(gotHolders), keys(wantHolders)))
		}
		for h := range wantHolders {
			if !gotHolders[h] {
				return fail("holders-index:"+kind, fmt.Sprintf("step %d %+v: holders index %v, reference %v", step, op, keys(gotHolders), keys(wantHolders)))
			}
		}
	}
	if selfTransfer {
		st.Class("self-transfer")
	}
	if truncating {
		st.Class("truncating-ratio")
	}
	if nontrivial {
		st.Class("some-message-succeeded")
	}
	if (selfTransfer || truncating) && nontrivial {
		st.NonTrivial(c)
	}
	return ""
}

func keys(m map[string]bool) []string {
	var out []string
	for k := range m {
		out = append(out, k)
	}
	sort.Strings(out)
	return out
}

func init() {
	replayers["TestC12_Ledger"] = func(st *ev.Stats, raw json.RawMessage) string {
		var c C12Case
		must(json.Unmarshal(raw, &c))
		return runC12(st, c)
	}
}

func TestC12_Ledger(t *testing.T) {
	st := ev.New("C12", "TestC12_Ledger",
		"history of DAO messages (fund/transfer all/ratio/amount, enable toggles) in which at least one message succeeded and which contains a sender==recipient transfer or a ratio transfer that truncates; distinct by history hash")
	runCorpus(t, st)
	runRapid(t, st, 3000, 300000, func(rt *rapid.T) {
		c := genC12Case(rt)
		if msg := runC12(st, c); msg != "" {
			rt.Fatalf("%s", msg)
		}
	})
}
