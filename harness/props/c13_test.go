package props

// C13 — coinomics mints the formula amount and never exceeds the cap.
// Oracle: reference mint computed with math/big in 18-decimal fixed point (same operation order as the statement:
// ((bonded x coef/100) x (elapsed/year)), each step rounded half-even at 18 decimals, result rounded half-even to a
// unit), clamped to cap - supply; plus a sanity bound against the exact rational value.

import (
	"encoding/json"
	"fmt"
	"math/big"
	"sync"
	"testing"
	"time"

	sdkmath "cosmossdk.io/math"
	sdk "github.com/cosmos/cosmos-sdk/types"
	authtypes "github.com/cosmos/cosmos-sdk/x/auth/types"
	stakingtypes "github.com/cosmos/cosmos-sdk/x/staking/types"
	"pgregory.net/rapid"

	"verif/chain"
	"verif/ev"

	coinomicstypes "github.com/haqq-network/haqq/x/coinomics/types"
)

type C13Step struct {
	DtMs    int64  `json:"dt_ms"`
	Toggle  bool   `json:"toggle,omitempty"`   // flip the enable flag before this block's EndBlock (stands for a passed param change)
	Coef    string `json:"coef,omitempty"`     // new reward coefficient (percent, 18 decimals) set before this block
	Bond    string `json:"bond_add,omitempty"` // coins added to the bonded pool before this block
	CapSnap *int64 `json:"cap_snap,omitempty"` // before this block: max supply := supply + floor(this block's formula amount) + CapSnap
}

type C13Case struct {
	StartMs int64     `json:"start_ms"` // unix ms of the first block
	Coef    string    `json:"coef"`
	Bonded  string    `json:"bonded_add"` // added to the bonded pool before the first block
	CapMode string    `json:"cap_mode"`   // far | near (supply + CapOff) | below
	CapOff  string    `json:"cap_off"`
	Enabled bool      `json:"enabled"`
	Steps   []C13Step `json:"steps"`
}

var (
	c13Once sync.Once
	c13Node *chain.Node
)

func c13Setup() {
	c13Once.Do(func() {
		c13Node = chain.NewNode(chain.Opts{Accounts: chain.Accts("c13", 1)})
		c13Node.BeginBlock(chain.BlockIn{})
	})
}

var c13Starts = []int64{
	time.Date(2023, 12, 31, 23, 59, 50, 0, time.UTC).UnixMilli(),
	time.Date(2024, 12, 31, 23, 59, 50, 0, time.UTC).UnixMilli(), // leap -> non-leap
	time.Date(2024, 2, 29, 12, 0, 0, 0, time.UTC).UnixMilli(),
	time.Date(2025, 6, 1, 0, 0, 0, 0, time.UTC).UnixMilli(),
	time.Date(2099, 12, 31, 23, 59, 59, 500e6, time.UTC).UnixMilli(), // 2100 is not a leap year
	time.Date(2100, 12, 31, 23, 59, 59, 0, time.UTC).UnixMilli(),
	time.Date(1999, 12, 31, 23, 59, 59, 0, time.UTC).UnixMilli(), // 2000 is a leap year
	time.Date(2399, 12, 31, 23, 0, 0, 0, time.UTC).UnixMilli(),
}

var c13Dts = []int64{1, 2, 999, 1000, 1001, 5000, 5824, 6000, 10000, 60000, 3600000, 86400000, 31536000000, 31622400000, 63072000000}

var c13Coefs = []string{"7.8", "7.8", "0", "100", "0.000000000000000001", "1", "12.345678901234567891", "99.999999999999999999", "50"}

var c13Bonds = []string{"0", "1", "999999999999999999", "1000000000000000000", "5000000000000000000000000000", "20000000000000000000000000000", "100000000000000000000000000000", "123456789012345678901234567"}

func genC13(t *rapid.T) C13Case {
	c := C13Case{}
	c.StartMs = rapid.SampledFrom(c13Starts).Draw(t, "start") + rapid.SampledFrom([]int64{0, 0, 1, 500, 9000, 10000, 11000}).Draw(t, "start-off")
	c.Coef = rapid.SampledFrom(c13Coefs).Draw(t, "coef")
	c.Bonded = rapid.SampledFrom(c13Bonds).Draw(t, "bonded")
	c.Enabled = rapid.IntRange(0, 9).Draw(t, "enabled") > 0
	switch rapid.IntRange(0, 5).Draw(t, "capmode") {
	case 0:
		c.CapMode, c.CapOff = "below", rapid.SampledFrom([]string{"0", "1", "1000000000000000000"}).Draw(t, "capoff")
	case 1, 2:
		c.CapMode, c.CapOff = "near", rapid.SampledFrom([]string{"0", "1", "2", "1000", "1000000000000", "1234567890123456789", "100000000000000000000000"}).Draw(t, "capoff")
	default:
		c.CapMode, c.CapOff = "far", "100000000000000000000000000000000"
	}
	n := rapid.IntRange(1, 8).Draw(t, "nsteps")
	for i := 0; i < n; i++ {
		s := C13Step{DtMs: rapid.SampledFrom(c13Dts).Draw(t, "dt")}
		if rapid.IntRange(0, 3).Draw(t, "dt-rand") == 0 {
			s.DtMs = rapid.Int64Range(1, 100000).Draw(t, "dt-v")
		}
		if rapid.IntRange(0, 7).Draw(t, "toggle") == 0 {
			s.Toggle = true
		}
		if rapid.IntRange(0, 5).Draw(t, "newcoef") == 0 {
			s.Coef = rapid.SampledFrom(c13Coefs).Draw(t, "coef-v")
		}
		if rapid.IntRange(0, 5).Draw(t, "newbond") == 0 {
			s.Bond = rapid.SampledFrom(c13Bonds).Draw(t, "bond-v")
		}
		if rapid.IntRange(0, 5).Draw(t, "capsnap") == 0 {
			v := rapid.SampledFrom([]int64{0, 0, 1, -1, 2}).Draw(t, "capsnap-v")
			s.CapSnap = &v
		}
		c.Steps = append(c.Steps, s)
	}
	return c
}

var ten18 = new(big.Int).Exp(big.NewInt(10), big.NewInt(18), nil)

// roundHalfEvenDiv returns n/d rounded half-even (n, d >= 0).
func roundHalfEvenDiv(n, d *big.Int) *big.Int {
	q, r := new(big.Int).QuoRem(n, d, new(big.Int))
	twice := new(big.Int).Lsh(r, 1)
	switch twice.Cmp(d) {
	case 1:
		q.Add(q, big.NewInt(1))
	case 0:
		if q.Bit(0) == 1 {
			q.Add(q, big.NewInt(1))
		}
	}
	return q
}

// fixed-point (18 decimals) helpers on raw integers (value * 10^18)
func fpMul(a, b *big.Int) *big.Int { return roundHalfEvenDiv(new(big.Int).Mul(a, b), ten18) }

// fpQuo: the SDK's 18-decimal quotient: a*10^36/b truncated, then rounded half-even to 18 decimals.
func fpQuo(a, b *big.Int) *big.Int {
	n := new(big.Int).Mul(a, ten18)
	n.Mul(n, ten18)
	n.Quo(n, b)
	return roundHalfEvenDiv(n, ten18)
}

func yearMs(ms int64) int64 {
	y := time.UnixMilli(ms).UTC().Year()
	if (y%4 == 0 && y%100 != 0) || y%400 == 0 {
		return 366 * 86400000
	}
	return 365 * 86400000
}

func runC13(st *ev.Stats, c C13Case) string {
	c13Setup()
	st.Eval()
	fail := func(key, what string) string { return st.Discrepancy(key, what, c) }
	app := c13Node.App
	ctx, _ := c13Node.Ctx().CacheContext()
	k := app.CoinomicsKeeper
	bondedPool := authtypes.NewModuleAddress(stakingtypes.BondedPoolName)
	feeCollector := authtypes.NewModuleAddress(authtypes.FeeCollectorName)
	addBond := func(s string) {
		a, _ := sdkmath.NewIntFromString(s)
		if a.IsPositive() {
			coins := sdk.NewCoins(sdk.NewCoin(chain.Denom, a))
			must(app.BankKeeper.MintCoins(ctx, coinomicstypes.ModuleName, coins))
			must(app.BankKeeper.SendCoinsFromModuleToModule(ctx, coinomicstypes.ModuleName, stakingtypes.BondedPoolName, coins))
		}
	}
	addBond(c.Bonded)
	supply := func() *big.Int { return app.BankKeeper.GetSupply(ctx, chain.Denom).Amount.BigInt() }
	capV := new(big.Int)
	off := bigOf(c.CapOff)
	switch c.CapMode {
	case "below":
		capV.Sub(supply(), off)
	default:
		capV.Add(supply(), off)
	}
	k.SetMaxSupply(ctx, sdk.NewCoin(chain.Denom, sdkmath.NewIntFromBigInt(capV)))
	params := coinomicstypes.Params{MintDenom: chain.Denom, RewardCoefficient: sdk.MustNewDecFromStr(c.Coef), EnableCoinomics: c.Enabled}
	k.SetParams(ctx, params)
	k.SetPrevBlockTS(ctx, sdk.ZeroInt())

	// reference state
	mEnabled, mPrev := c.Enabled, int64(0) // 0 = not set: the next enabled block is "the first block after activation"
	now := c.StartMs
	var clamp, yearCross, remainder, minted bool
	for i, s := range c.Steps {
		if i > 0 {
			now += s.DtMs
		}
		if s.Coef != "" {
			params = k.GetParams(ctx)
			params.RewardCoefficient = sdk.MustNewDecFromStr(s.Coef)
			k.SetParams(ctx, params)
		}
		if s.Bond != "" {
			// the cap moves with the added coins so that "near the cap" stays near
			addBond(s.Bond)
		}
		if s.Toggle {
			params = k.GetParams(ctx)
			params.EnableCoinomics = !params.EnableCoinomics
			k.SetParams(ctx, params)
			mEnabled = params.EnableCoinomics
			if mEnabled {
				mPrev = 0 // statement: nothing is minted on the first block after activation
			}
		}
		params = k.GetParams(ctx)
		bonded := app.BankKeeper.GetBalance(ctx, bondedPool, chain.Denom).Amount.BigInt()
		sup0 := supply()
		fc0 := app.BankKeeper.GetBalance(ctx, feeCollector, chain.Denom).Amount.BigInt()
		realPrev := k.GetPrevBlockTS(ctx).Int64()

		// reference
		want := new(big.Int)
		wantEnabled := mEnabled
		reactivation := false
		if mEnabled {
			if mPrev == 0 {
				if realPrev != 0 {
					reactivation = true // the implementation still remembers the timestamp from before the disabled interval
				}
				mPrev = now
			} else {
				elapsed := now - mPrev
				coefRaw := params.RewardCoefficient.BigInt()                   // percent * 10^18
				rc := fpQuo(coefRaw, new(big.Int).Mul(big.NewInt(100), ten18)) // coef / 100
				bondedRaw := new(big.Int).Mul(bonded, ten18)
				frac := fpQuo(new(big.Int).Mul(big.NewInt(elapsed), ten18), new(big.Int).Mul(big.NewInt(yearMs(now)), ten18))
				mintRaw := fpMul(fpMul(bondedRaw, rc), frac)
				if s.CapSnap != nil {
					// put the cap exactly at (or one unit around) the integer part of this block's formula amount
					capV = new(big.Int).Add(sup0, new(big.Int).Quo(mintRaw, ten18))
					capV.Add(capV, big.NewInt(*s.CapSnap))
					k.SetMaxSupply(ctx, sdk.NewCoin(chain.Denom, sdkmath.NewIntFromBigInt(capV)))
					st.Class("cap-snapped-to-mint")
				}
				// cap test on the unrounded amount
				room := new(big.Int).Sub(capV, sup0)
				roomRaw := new(big.Int).Mul(room, ten18)
				if mintRaw.Cmp(roomRaw) > 0 {
					wantEnabled = false
					clamp = true
					if room.Sign() > 0 {
						want = room
					}
					// (when clamped the timestamp is left alone by the implementation; irrelevant once disabled)
				} else {
					want = roundHalfEvenDiv(mintRaw, ten18)
					if new(big.Int).Mod(mintRaw, ten18).Sign() != 0 {
						remainder = true
					}
					// sanity against the exact rational value: |want - exact| <= 1 + bonded*coef/100 * 1e-18 (+1)
					exactN := new(big.Int).Mul(bonded, coefRaw)
					exactN.Mul(exactN, big.NewInt(elapsed))
					exactD := new(big.Int).Mul(ten18, big.NewInt(100))
					exactD.Mul(exactD, big.NewInt(yearMs(now)))
					exact := new(big.Int).Quo(exactN, exactD)
					tol := new(big.Int).Quo(new(big.Int).Mul(bonded, coefRaw), new(big.Int).Mul(exactD, big.NewInt(1)))
					tol.Add(tol, new(big.Int).Quo(bonded, ten18))
					tol.Add(tol, big.NewInt(3))
					if d := new(big.Int).Abs(new(big.Int).Sub(want, exact)); d.Cmp(tol) > 0 {
						panic(fmt.Sprintf("reference disagrees with the exact rational value: %s vs %s (tol %s)", want, exact, tol))
					}
					mPrev = now
				}
				if time.UnixMilli(now-elapsed).UTC().Year() != time.UnixMilli(now).UTC().Year() {
					yearCross = true
				}
			}
		}

		k.EndBlocker(ctx.WithBlockTime(time.UnixMilli(now).UTC()))

		sup1 := supply()
		fc1 := app.BankKeeper.GetBalance(ctx, feeCollector, chain.Denom).Amount.BigInt()
		dSup, dFc := new(big.Int).Sub(sup1, sup0), new(big.Int).Sub(fc1, fc0)
		gotEnabled := k.GetParams(ctx).EnableCoinomics
		desc := fmt.Sprintf("step %d now=%d prev=%d bonded=%s coef=%s supply=%s cap=%s: minted %s (fee collector +%s) enabled->%v; reference mint %s enabled->%v",
			i, now, realPrev, bonded, params.RewardCoefficient, sup0, capV, dSup, dFc, gotEnabled, want, wantEnabled)
		if reactivation && (dSup.Cmp(want) != 0 || gotEnabled != wantEnabled) {
			if msg := fail("reactivation-catch-up", "first block after re-activation minted for the disabled interval: "+desc); msg != "" {
				return msg
			}
			// known: adopt the implementation's state and continue
			mEnabled = gotEnabled
			mPrev = now
			st.Class("reactivation")
			continue
		}
		if dSup.Cmp(dFc) != 0 {
			return fail("mint-not-to-fee-collector", desc)
		}
		if sup1.Cmp(capV) > 0 && dSup.Sign() > 0 {
			return fail("supply-above-cap", desc)
		}
		if dSup.Cmp(want) != 0 {
			key := "mint-amount"
			if !mEnabled {
				key = "mint-while-disabled"
			} else if realPrev == 0 {
				key = "mint-on-first-block"
			} else if wantEnabled != mEnabled {
				key = "mint-amount:clamped"
			}
			return fail(key, desc)
		}
		if gotEnabled != wantEnabled {
			return fail("auto-disable-flag", desc)
		}
		if dSup.Sign() > 0 {
			minted = true
		}
		mEnabled = wantEnabled
	}
	if clamp {
		st.Class("clamped-to-cap")
	}
	if yearCross {
		st.Class("crosses-year")
	}
	if remainder {
		st.Class("rounding-remainder")
	}
	if minted {
		st.Class("minted")
	}
	if clamp || yearCross || (remainder && minted) {
		st.NonTrivial(c)
	}
	return ""
}

func init() {
	replayers["TestC13_Mint"] = func(st *ev.Stats, raw json.RawMessage) string {
		var c C13Case
		must(json.Unmarshal(raw, &c))
		return runC13(st, c)
	}
}

func TestC13_Mint(t *testing.T) {
	st := ev.New("C13", "TestC13_Mint", "sequence of 1-8 block end-blocks with generated millisecond timestamps (incl. 31 Dec of leap / non-leap / century years), bonded totals up to 1e29, reward coefficients 0..100 with 18 decimals, cap far / near / below the supply, enable toggles; non-trivial = a block clamps to the cap, crosses a year boundary, or mints with a non-zero 18-decimal remainder")
	runCorpus(t, st)
	runRapid(t, st, 6000, 600000, func(rt *rapid.T) {
		if msg := runC13(st, genC13(rt)); msg != "" {
			rt.Fatalf("%s", msg)
		}
	})
}
