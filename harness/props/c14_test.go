package props

// C14 — slashing and deposit burns go to the community pool, not to zero.
//
// (1) Keeper level: generated staking state (delegations, unbondings, redelegations by several delegators to
//     several validators) and generated slashes (validator, fraction, infraction height), generated proposals with
//     deposits that are then burned. Oracle: total supply unchanged; community pool grows by exactly the amount the
//     staking keeper reports as burned / the deposits held; the distribution module account holds the matching coins;
//     the bonded + not-bonded (resp. gov) pools shrink by exactly that amount.
// (2) Block level: histories whose tail consists of transaction-free blocks with double-sign evidence, absent
//     validators and time jumps past deposit/voting periods. Oracle in a tx-free block that follows a tx-free block
//     (so no fees are being allocated): supply unchanged and community pool delta == distribution module delta.

import (
	"encoding/json"
	"fmt"
	"math/big"
	"sync"
	"testing"
	"time"

	sdkmath "cosmossdk.io/math"
	sdk "github.com/cosmos/cosmos-sdk/types"
	authtypes "github.com/cosmos/cosmos-sdk/x/auth/types"
	distrtypes "github.com/cosmos/cosmos-sdk/x/distribution/types"
	govtypes "github.com/cosmos/cosmos-sdk/x/gov/types"
	govv1 "github.com/cosmos/cosmos-sdk/x/gov/types/v1"
	stakingtypes "github.com/cosmos/cosmos-sdk/x/staking/types"
	"pgregory.net/rapid"

	"verif/chain"
	"verif/ev"

	"github.com/haqq-network/haqq/app"
)

type C14Op struct {
	K    string `json:"k"` // delegate | undelegate | redelegate | slash | propose | deposit | burn-deposits | advance
	A    int    `json:"a"`
	V    int    `json:"v"`
	V2   int    `json:"v2"`
	Amt  string `json:"amt"`  // milli-ISLM
	Frac string `json:"frac"` // slash fraction (Dec)
	Back int64  `json:"back"` // slash: infraction height = current - Back
	Dt   int64  `json:"dt"`
}

type C14Case struct {
	Ops []C14Op `json:"ops"`
}

func genC14(t *rapid.T) C14Case {
	c := C14Case{}
	n := rapid.IntRange(3, 16).Draw(t, "nops")
	for i := 0; i < n; i++ {
		kinds := []string{"delegate", "delegate", "undelegate", "redelegate", "slash", "slash", "propose", "deposit", "burn-deposits", "advance"}
		if i < 3 {
			kinds = []string{"delegate", "delegate", "undelegate", "redelegate", "propose"}
		}
		op := C14Op{K: rapid.SampledFrom(kinds).Draw(t, "k")}
		op.A = rapid.IntRange(0, 3).Draw(t, "a")
		op.V = rapid.IntRange(0, 2).Draw(t, "v")
		op.V2 = rapid.IntRange(0, 2).Draw(t, "v2")
		op.Amt = rapid.SampledFrom([]string{"1", "1000", "333333", "1000000", "7777777"}).Draw(t, "amt")
		op.Frac = rapid.SampledFrom([]string{"0.05", "0.01", "0.000000000000000001", "1", "0.5", "0.333333333333333333", "0"}).Draw(t, "frac")
		op.Back = rapid.Int64Range(0, 6).Draw(t, "back")
		op.Dt = rapid.SampledFrom([]int64{1, 30, 130}).Draw(t, "dt")
		c.Ops = append(c.Ops, op)
	}
	return c
}

var (
	c14Once sync.Once
	c14Node *chain.Node
)

// c14Base is left inside a block: cases run on cached deliver-state contexts that are never written back.
func c14Base() *chain.Node {
	c14Once.Do(func() {
		n := chain.NewNode(hOpts(History{NumVals: 3, ModuleAccts: true})) // (a network whose genesis lists the module accounts)
		for i := 0; i < 3; i++ {
			n.BeginBlock(chain.BlockIn{})
			n.EndBlockCommit()
		}
		n.BeginBlock(chain.BlockIn{})
		c14Node = n
	})
	return c14Node
}

type c14Obs struct {
	Supply, Pool, Owed, Distr, Bonded, NotBonded, Gov *big.Int
}

func c14Observe(app c14App, ctx sdk.Context) c14Obs { return c14ObserveDenom(app, ctx, chain.Denom) }

func c14ObserveDenom(app c14App, ctx sdk.Context, denom string) c14Obs {
	bal := func(mod string) *big.Int {
		return app.BankKeeper.GetBalance(ctx, authtypes.NewModuleAddress(mod), denom).Amount.BigInt()
	}
	pool := app.DistrKeeper.GetFeePoolCommunityCoins(ctx).AmountOf(denom)
	owed := pool
	app.DistrKeeper.IterateValidatorOutstandingRewards(ctx, func(_ sdk.ValAddress, rewards distrtypes.ValidatorOutstandingRewards) bool {
		owed = owed.Add(rewards.Rewards.AmountOf(denom))
		return false
	})
	return c14Obs{
		Owed:   owed.TruncateInt().BigInt(),
		Supply: app.BankKeeper.GetSupply(ctx, denom).Amount.BigInt(),
		Pool:   pool.TruncateInt().BigInt(), Distr: bal(distrtypes.ModuleName), Bonded: bal(stakingtypes.BondedPoolName),
		NotBonded: bal(stakingtypes.NotBondedPoolName), Gov: bal(govtypes.ModuleName),
	}
}

func runC14Keeper(st *ev.Stats, c C14Case) string {
	st.Eval()
	fail := func(key, what string) string { return st.Discrepancy(key, what, c) }
	n := c14Base()
	app := n.App
	ctx, _ := n.Ctx().CacheContext()
	users := hUsersAccts()
	exec := func(msg sdk.Msg) error {
		h := app.MsgServiceRouter().Handler(msg)
		cctx, write := ctx.CacheContext()
		_, err := h(cctx, msg)
		if err == nil {
			write()
		}
		return err
	}
	vals := func() []stakingtypes.Validator {
		vs := app.StakingKeeper.GetAllValidators(ctx)
		return vs
	}
	var slashUnbonding, slashRedelegation, depositBurn bool
	var nUnbond, nRedel int
	for i, op := range c.Ops {
		vs := vals()
		v := vs[op.V%len(vs)]
		valAddr := v.GetOperator()
		A := users[op.A%len(users)]
		coin := sdk.NewCoin(chain.Denom, sdkmath.NewIntFromBigInt(milli(op.Amt)))
		switch op.K {
		case "delegate":
			_ = exec(stakingtypes.NewMsgDelegate(A.Addr, valAddr, coin))
		case "undelegate":
			if exec(stakingtypes.NewMsgUndelegate(A.Addr, valAddr, coin)) == nil {
				nUnbond++
			}
		case "redelegate":
			dst := vs[op.V2%len(vs)]
			if dst.OperatorAddress != v.OperatorAddress && exec(stakingtypes.NewMsgBeginRedelegate(A.Addr, valAddr, dst.GetOperator(), coin)) == nil {
				nRedel++
			}
		case "advance":
			// a later block: heights matter for which unbonding/redelegation entries a slash reaches
			ctx = ctx.WithBlockHeight(ctx.BlockHeight() + 1).WithBlockTime(ctx.BlockTime().Add(time.Duration(op.Dt) * time.Second))
			app.StakingKeeper.BlockValidatorUpdates(ctx)
		case "slash":
			if v.IsUnbonded() {
				// the staking keeper refuses (panics) by design: evidence against an unbonded validator never reaches Slash
				st.Class("slash-skipped:validator-unbonded")
				continue
			}
			cons, err := v.GetConsAddr()
			must(err)
			frac := sdk.MustNewDecFromStr(op.Frac)
			inf := ctx.BlockHeight() - op.Back
			if inf < 1 {
				inf = 1
			}
			power := v.GetConsensusPower(app.StakingKeeper.PowerReduction(ctx))
			b0 := c14Observe(c14App{app}, ctx)
			var burned sdkmath.Int
			var perr string
			func() {
				defer func() {
					if r := recover(); r != nil {
						perr = fmt.Sprint(r)
					}
				}()
				burned = app.StakingKeeper.Slash(ctx, cons, inf, power, frac)
			}()
			if perr != "" {
				return fail("slash-panic", fmt.Sprintf("op %d: Slash panicked: %s", i, trunc(perr)))
			}
			b1 := c14Observe(c14App{app}, ctx)
			d := func(a, b *big.Int) *big.Int { return new(big.Int).Sub(b, a) }
			desc := fmt.Sprintf("op %d slash %s frac %s infraction %d (now %d): burned(reported) %s, supply %s->%s, pool +%s, distr +%s, bonded %s, notBonded %s", i, v.OperatorAddress, op.Frac, inf, ctx.BlockHeight(), burned, b0.Supply, b1.Supply, d(b0.Pool, b1.Pool), d(b0.Distr, b1.Distr), d(b0.Bonded, b1.Bonded), d(b0.NotBonded, b1.NotBonded))
			if b1.Supply.Cmp(b0.Supply) != 0 {
				return fail("slash-changes-supply", desc)
			}
			// "the amount" = what left the bonded and not-bonded pools (the value Slash returns covers only the
			// validator's own tokens, not the unbonding / redelegation entries it also slashes)
			out := new(big.Int).Neg(new(big.Int).Add(d(b0.Bonded, b1.Bonded), d(b0.NotBonded, b1.NotBonded)))
			if out.Cmp(burned.BigInt()) < 0 {
				return fail("slash-pools", desc)
			}
			if d(b0.Pool, b1.Pool).Cmp(out) != 0 {
				return fail("slash-community-pool", desc)
			}
			if d(b0.Distr, b1.Distr).Cmp(out) != 0 {
				return fail("slash-distribution-account", desc)
			}
			if out.Sign() > 0 {
				st.Class("slash-burned")
				if d(b0.NotBonded, b1.NotBonded).Sign() < 0 {
					slashUnbonding = true
				}
				if nRedel > 0 {
					slashRedelegation = true
				}
			}
		case "propose":
			dep := sdk.NewCoins(coin)
			if op.Back%2 == 1 {
				dep = dep.Add(sdk.NewCoin("uxmpl", sdkmath.NewInt(1000+op.Back)))
			}
			m, err := govv1.NewMsgSubmitProposal(nil, dep, A.Addr.String(), "m", "t", "s")
			must(err)
			_ = exec(m)
		case "deposit":
			props := app.GovKeeper.GetProposals(ctx)
			if len(props) > 0 {
				dep := sdk.NewCoins(coin)
				if op.Back%2 == 0 {
					dep = dep.Add(sdk.NewCoin("uxmpl", sdkmath.NewInt(77+op.Back)))
				}
				_ = exec(govv1.NewMsgDeposit(A.Addr, props[op.V%len(props)].Id, dep))
			}
		case "burn-deposits":
			props := app.GovKeeper.GetProposals(ctx)
			if len(props) == 0 {
				continue
			}
			p := props[op.V%len(props)]
			total := sdk.NewCoins()
			for _, dep := range app.GovKeeper.GetDeposits(ctx, p.Id) {
				total = total.Add(dep.Amount...)
			}
			b0 := c14Observe(c14App{app}, ctx)
			x0 := c14ObserveDenom(c14App{app}, ctx, "uxmpl")
			app.GovKeeper.DeleteAndBurnDeposits(ctx, p.Id)
			b1 := c14Observe(c14App{app}, ctx)
			x1 := c14ObserveDenom(c14App{app}, ctx, "uxmpl")
			if wantX := total.AmountOf("uxmpl").BigInt(); x1.Supply.Cmp(x0.Supply) != 0 || new(big.Int).Sub(x1.Pool, x0.Pool).Cmp(wantX) != 0 || new(big.Int).Sub(x1.Distr, x0.Distr).Cmp(wantX) != 0 {
				return fail("deposit-burn-community-pool:second-denomination", fmt.Sprintf("op %d burn deposits %s: uxmpl supply %s->%s, pool +%s, distr +%s, expected +%s", i, total, x0.Supply, x1.Supply, new(big.Int).Sub(x1.Pool, x0.Pool), new(big.Int).Sub(x1.Distr, x0.Distr), wantX))
			} else if wantX.Sign() > 0 {
				st.Class("deposit-burned-two-denominations")
			}
			want := total.AmountOf(chain.Denom).BigInt()
			d := func(a, b *big.Int) *big.Int { return new(big.Int).Sub(b, a) }
			desc := fmt.Sprintf("op %d burn deposits of proposal %d (%s): supply %s->%s pool +%s distr +%s gov %s", i, p.Id, total, b0.Supply, b1.Supply, d(b0.Pool, b1.Pool), d(b0.Distr, b1.Distr), d(b0.Gov, b1.Gov))
			if b1.Supply.Cmp(b0.Supply) != 0 {
				return fail("deposit-burn-changes-supply", desc)
			}
			if d(b0.Pool, b1.Pool).Cmp(want) != 0 || d(b0.Distr, b1.Distr).Cmp(want) != 0 || new(big.Int).Neg(d(b0.Gov, b1.Gov)).Cmp(want) != 0 {
				return fail("deposit-burn-community-pool", desc)
			}
			if want.Sign() > 0 {
				depositBurn = true
				st.Class("deposit-burned")
			}
		}
	}
	if slashUnbonding {
		st.Class("slash-reached-unbonding")
	}
	if slashRedelegation {
		st.Class("slash-with-redelegations")
	}
	_ = nUnbond
	if slashUnbonding || slashRedelegation || depositBurn {
		st.NonTrivial(c)
	}
	return ""
}

type c14App struct{ *app.Haqq }

// ---- block level ---------------------------------------------------------------------------------------------

var c14Kinds = []string{"send", "delegate", "delegate", "delegate", "undelegate", "undelegate", "redelegate", "redelegate", "gov-submit", "gov-submit", "gov-deposit", "gov-vote", "setwithdraw"}

func genC14History(t *rapid.T) History {
	h := genHistory(t, 3, 7, c14Kinds)
	h.Coinomics, h.CapNear = false, false
	// minting stays off for the whole history (the supply must not move): no governance switch of coinomics
	for i := range h.Blocks {
		var keep []HTx
		for _, g := range h.Blocks[i].Gov {
			if g.K != "coinomics-switch" {
				keep = append(keep, g)
			}
		}
		h.Blocks[i].Gov = keep
	}
	// quiet tail: tx-free blocks with evidence, absences and time jumps
	k := rapid.IntRange(3, 7).Draw(t, "tail")
	for i := 0; i < k; i++ {
		b := HBlock{Dt: rapid.SampledFrom([]int64{1, 5, 46, 61, 130}).Draw(t, "tdt"), Proposer: rapid.IntRange(0, 3).Draw(t, "tprop")}
		if rapid.IntRange(0, 1).Draw(t, "tabs") == 0 {
			b.Absent = []int{rapid.IntRange(0, 3).Draw(t, "tabs-v")}
		}
		if rapid.IntRange(0, 2).Draw(t, "tds") == 0 {
			b.DoubleSign = 1 + rapid.IntRange(0, 3).Draw(t, "tds-v")
		}
		h.Blocks = append(h.Blocks, b)
	}
	return h
}

func runC14Blocks(st *ev.Stats, h History) string {
	st.Eval()
	fail := func(key, what string) string { return st.Discrepancy(key, what, h) }
	n := chain.NewNode(hOpts(h))
	r := newHRunner(n)
	prevQuiet := false
	burnBlocks := 0
	for i, b := range h.Blocks {
		before := c14Observe(c14App{n.App}, committedCtx(n))
		slashes := r.st.Slashes
		r.RunBlock(b, nil)
		after := c14Observe(c14App{n.App}, committedCtx(n))
		if after.Supply.Cmp(before.Supply) != 0 {
			return fail("block-changes-supply", fmt.Sprintf("block %d (%+v): supply %s -> %s with coinomics off", i+1, b, before.Supply, after.Supply))
		}
		quiet := len(b.Txs) == 0
		if quiet && prevQuiet {
			dPool := new(big.Int).Sub(after.Pool, before.Pool)
			dDistr := new(big.Int).Sub(after.Distr, before.Distr)
			// what the distribution account holds is the community pool plus the validators' outstanding rewards; in a
			// tx-free block the latter only shrink when a validator record is removed (its commission is paid out)
			dOwed := new(big.Int).Sub(after.Owed, before.Owed)
			if dOwed.Cmp(dDistr) != 0 {
				return fail("burn-block-community-pool", fmt.Sprintf("tx-free block %d: community pool + outstanding rewards changed by %s (pool alone %s) but the distribution account by %s", i+1, dOwed, dPool, dDistr))
			}
			dPools := new(big.Int).Add(new(big.Int).Sub(after.Bonded, before.Bonded), new(big.Int).Sub(after.NotBonded, before.NotBonded))
			dPools.Add(dPools, new(big.Int).Sub(after.Gov, before.Gov))
			if dPool.Sign() < 0 {
				return fail("burn-block-community-pool", fmt.Sprintf("tx-free block %d: community pool decreased by %s", i+1, dPool))
			}
			if dPool.Sign() > 0 {
				burnBlocks++
				st.Class("burn-block")
				if r.st.Slashes > slashes {
					st.Class("burn-block-with-slash")
				}
				if after.Gov.Cmp(before.Gov) < 0 {
					st.Class("burn-block-with-deposit-burn")
				}
			}
		}
		prevQuiet = quiet
	}
	if burnBlocks > 0 {
		st.NonTrivial(h)
	}
	return ""
}

func init() {
	replayers["TestC14_Keeper"] = func(st *ev.Stats, raw json.RawMessage) string {
		var c C14Case
		must(json.Unmarshal(raw, &c))
		return runC14Keeper(st, c)
	}
	replayers["TestC14_Blocks"] = func(st *ev.Stats, raw json.RawMessage) string {
		var h History
		must(json.Unmarshal(raw, &h))
		return runC14Blocks(st, h)
	}
}

func TestC14_Keeper(t *testing.T) {
	st := ev.New("C14", "TestC14_Keeper", "generated staking/gov state (delegations, unbondings, redelegations, proposals with deposits) and generated slashes (validator, fraction 0..1, infraction height) / deposit burns at keeper level; non-trivial = a slash that reached unbonding entries or happened with redelegations present, or a deposit burn of a non-zero amount")
	runCorpus(t, st)
	runRapid(t, st, 1500, 100000, func(rt *rapid.T) {
		if msg := runC14Keeper(st, genC14(rt)); msg != "" {
			rt.Fatalf("%s", msg)
		}
	})
}

func TestC14_Blocks(t *testing.T) {
	st := ev.New("C14", "TestC14_Blocks", "block history (staking and gov txs) followed by 3-7 transaction-free blocks with double-sign evidence, absent validators and time jumps past the deposit and voting periods; non-trivial = history with at least one tx-free block in which the community pool grew (slash or deposit burn)")
	runCorpus(t, st)
	runRapid(t, st, 120, 5000, func(rt *rapid.T) {
		if msg := runC14Blocks(st, genC14History(rt)); msg != "" {
			rt.Fatalf("%s", msg)
		}
	})
}
