package props

// C15 — module accounting invariants hold after every block.
// Generator: block histories (hist_test.go) mixing all modules. Oracle: every invariant registered with the crisis
// keeper, evaluated on the committed state after every block.

import (
	"encoding/json"
	"fmt"
	"testing"

	"pgregory.net/rapid"

	"verif/chain"
	"verif/ev"
)

func checkInvariants(n *chain.Node) (route, msg string, broken bool) {
	ctx := committedCtx(n)
	for _, r := range n.App.CrisisKeeper.Routes() {
		var m string
		var b bool
		func() {
			defer func() {
				if rec := recover(); rec != nil {
					m, b = fmt.Sprintf("invariant panicked: %v", rec), true
				}
			}()
			m, b = r.Invar(ctx)
		}()
		if b {
			return r.FullRoute(), m, true
		}
	}
	return "", "", false
}

var haqqKinds = map[string]bool{"vest-create": true, "vest-clawback": true, "lv-liquidate": true, "lv-redeem": true, "dao-fund": true, "dao-transfer": true,
	"eth-send": true, "eth-create": true, "eth-call": true, "eth-delegate": true, "eth-withdraw": true, "eth-prog": true,
	"eth-fanout": true, "erc20-deploy": true, "erc20-mint": true, "erc20-transfer": true, "erc20-convert": true}

func histClasses(st *ev.Stats, r *hRunner) (haqqOK, stakingOK int) {
	for k, c := range r.st.OK {
		if c > 0 {
			st.Class("ok:" + k)
			if haqqKinds[k] {
				haqqOK += c
			}
			if k == "delegate" || k == "undelegate" || k == "redelegate" || k == "eth-delegate" {
				stakingOK += c
			}
		}
	}
	if r.st.Slashes > 0 {
		st.Class("slash")
	}
	for k, c := range r.st.GovOK {
		if c > 0 {
			st.Class("gov-ok:" + k)
		}
	}
	return
}

func runC15(st *ev.Stats, h History) string {
	st.Eval()
	fail := func(key, what string) string { return st.Discrepancy(key, what, h) }
	n := chain.NewNode(hOpts(h))
	if route, msg, broken := checkInvariants(n); broken {
		panic("harness genesis breaks " + route + ": " + msg)
	}
	r := newHRunner(n)
	for i, b := range h.Blocks {
		var perr string
		func() {
			defer func() {
				if rec := recover(); rec != nil {
					perr = fmt.Sprint(rec)
				}
			}()
			r.RunBlock(b, nil)
		}()
		if perr != "" {
			return fail("block-panic", fmt.Sprintf("block %d panicked: %s", i+1, trunc(perr)))
		}
		if route, msg, broken := checkInvariants(n); broken {
			return fail("invariant:"+route, fmt.Sprintf("after block %d (%+v): %s", i+1, b, trunc(msg)))
		}
	}
	haqqOK, stakingOK := histClasses(st, r)
	if haqqOK > 0 && (stakingOK > 0 || r.st.Slashes > 0) {
		st.NonTrivial(h)
	}
	return ""
}

func init() {
	replayers["TestC15_Invariants"] = func(st *ev.Stats, raw json.RawMessage) string {
		var h History
		must(json.Unmarshal(raw, &h))
		return runC15(st, h)
	}
}

func TestC15_Invariants(t *testing.T) {
	st := ev.New("C15", "TestC15_Invariants", "block history (3-12 blocks, 0-6 txs each over 30 intent kinds: bank, staking, distribution, gov, vesting, liquid vesting, DAO, EVM transfers/contracts/precompiles, invalid txs; time steps 1s..400d, absent validators, double-sign evidence, coinomics on/off); non-trivial = at least one Haqq-module/EVM tx succeeded and at least one staking tx succeeded or a slash happened")
	runCorpus(t, st)
	runRapid(t, st, 160, 15000, func(rt *rapid.T) {
		if msg := runC15(st, genHistory(rt, 3, 12, hKinds)); msg != "" {
			rt.Fatalf("%s", msg)
		}
	})
}
