package props

// C16 — a precompile call has exactly the effect of the native message.
//
// (tx) Differential: on two forks of the same generated state, (a) the account owner calls the precompile method
//      directly with an Ethereum tx, (b) the same key signs the corresponding native Cosmos message. After the block
//      every KV store must be identical except gas-related entries (signer / fee collector balances adjusted by the fee
//      each route charged, the signer's account record, fee market), and both must succeed or both fail.
// (query) The read-only staking methods and the bank methods are called through the EVM and decoded with the ABI; the
//      result must equal what the native keepers / queries report on the same state.

import (
	"encoding/base64"
	"os"
	"reflect"

	"encoding/json"
	"fmt"
	"github.com/cosmos/cosmos-sdk/crypto/keys/ed25519"
	stakingpc "github.com/haqq-network/haqq/precompiles/staking"
	"math/big"
	"sort"
	"strings"
	"testing"

	sdkmath "cosmossdk.io/math"
	sdk "github.com/cosmos/cosmos-sdk/types"
	"github.com/cosmos/cosmos-sdk/types/bech32"
	authtypes "github.com/cosmos/cosmos-sdk/x/auth/types"
	distrtypes "github.com/cosmos/cosmos-sdk/x/distribution/types"
	stakingtypes "github.com/cosmos/cosmos-sdk/x/staking/types"
	"github.com/ethereum/go-ethereum/common"
	"pgregory.net/rapid"

	"verif/chain"
	"verif/ev"
	"verif/pabi"
	"verif/txb"
)

type C16Pre struct {
	K   string `json:"k"` // delegate | undelegate | setw
	Val int    `json:"val"`
	Amt string `json:"amt"`
}

type C16Case struct {
	Prelude []C16Pre `json:"prelude"` // native txs by the signer before the compared call (reach other states)
	Method  string   `json:"method"`  // delegate | undelegate | redelegate | cancelUnbonding | withdraw | setWithdraw
	Val     int      `json:"val"`
	Val2    int      `json:"val2"`
	AmtMode string   `json:"amt_mode"` // abs | balance | delegation
	Amt     string   `json:"amt"`      // milli-ISLM (abs) or offset in base units (balance/delegation)
	Unknown bool     `json:"unknown_validator"`
	Height  int64    `json:"creation_height_off"`
	To      string   `json:"to"` // setWithdraw target
	// ToSpelling (setWithdraw): how the withdraw address is written in both the message and the precompile call: "" =
	// the chain's account bech32, valoper / cosmos = well-formed bech32 with another prefix, upper = upper-cased, empty,
	// garbage
	ToSpelling string `json:"to_spelling,omitempty"`
	// TogglePair (query test): the registered pair of uxmpl is switched off before the queries (it keeps its ERC20 address)
	TogglePair bool   `json:"toggle_pair,omitempty"`
	Signer     string `json:"signer,omitempty"` // "" (plain delegator) | vesting (clawback vesting account with locked coins) | operator (validator operator)
	Create     int    `json:"create,omitempty"` // createValidator parameter variant
}

var c16ConsKey = ed25519.GenPrivKeyFromSecret([]byte("c16-new-validator"))

type c16Create struct {
	desc                     stakingtypes.Description
	rate, maxRate, maxChange sdkmath.LegacyDec
	minSelf                  *big.Int
}

func c16CreateArgs(c C16Case) c16Create {
	d := func(s string) sdkmath.LegacyDec { return sdkmath.LegacyMustNewDecFromStr(s) }
	cv := c16Create{desc: stakingtypes.NewDescription("newval", "", "https://x.example", "", "generated"), rate: d("0.10"), maxRate: d("0.20"), maxChange: d("0.01"), minSelf: big.NewInt(1)}
	switch c.Create {
	case 1:
		cv.rate = d("0.30") // above max rate
	case 2:
		cv.minSelf = new(big.Int).Exp(big.NewInt(10), big.NewInt(30), nil) // above any value
	case 3:
		cv.desc.Moniker = ""
	case 4:
		cv.maxChange = d("0.25") // above max rate
	case 5:
		cv.rate = d("0") // below a minimum commission, if any
	case 6:
		cv.minSelf = big.NewInt(0) // not a positive integer
	case 7:
		cv.maxRate = d("1.01") // above 100 %
	case 8:
		cv.desc.Details = strings.Repeat("d", 300) // longer than the description limit
	}
	return cv
}

func c16Signer(c C16Case) chain.Account {
	switch c.Signer {
	case "vesting":
		return pxVest
	case "operator":
		// the operator account of the validator the case names
		base := pxBase()
		vals := base.App.StakingKeeper.GetAllValidators(base.CheckCtx())
		sort.Slice(vals, func(i, j int) bool { return vals[i].OperatorAddress < vals[j].OperatorAddress })
		want := vals[c.Val%len(vals)].GetOperator()
		for i := 0; i < len(vals); i++ {
			if sdk.ValAddress(chain.ValOp(i).Addr).Equals(want) {
				return chain.ValOp(i)
			}
		}
	}
	return pxSigner
}

func genC16(t *rapid.T) C16Case {
	c := C16Case{}
	np := rapid.IntRange(0, 3).Draw(t, "nprelude")
	for i := 0; i < np; i++ {
		c.Prelude = append(c.Prelude, C16Pre{K: rapid.SampledFrom([]string{"delegate", "undelegate", "undelegate", "undelegate-all", "setw", "slash"}).Draw(t, "pk"),
			Val: rapid.IntRange(0, 3).Draw(t, "pval"), Amt: rapid.SampledFrom([]string{"1000", "250000", "1000000"}).Draw(t, "pamt")})
	}
	c.Method = rapid.SampledFrom([]string{"delegate", "delegate", "undelegate", "undelegate", "redelegate", "redelegate", "cancelUnbonding", "withdraw", "setWithdraw", "createValidator", "createValidator", "withdrawCommission"}).Draw(t, "method")
	c.Val = rapid.IntRange(0, 3).Draw(t, "val")
	c.Val2 = rapid.IntRange(0, 3).Draw(t, "val2")
	c.AmtMode = rapid.SampledFrom([]string{"abs", "abs", "balance", "delegation", "delegation"}).Draw(t, "amtmode")
	if c.AmtMode == "abs" {
		// 1,200,000 ISLM lies between the vesting signer's unlocked coins and its balance
		c.Amt = rapid.SampledFrom([]string{"0", "1", "1000", "500000", "20000000", "1200000000", "1200000000", "99999999999"}).Draw(t, "amt")
	} else {
		c.Amt = rapid.SampledFrom([]string{"0", "-1", "1", "-1000000000000000000"}).Draw(t, "amtoff")
	}
	c.Unknown = rapid.IntRange(0, 9).Draw(t, "unknown") == 0
	c.Height = rapid.SampledFrom([]int64{0, 0, 0, 1, -1}).Draw(t, "hoff")
	c.To = rapid.SampledFrom([]string{"w", "third", "signer"}).Draw(t, "to")
	if c.Method == "setWithdraw" {
		c.ToSpelling = rapid.SampledFrom([]string{"", "", "valoper", "cosmos", "upper", "empty", "garbage"}).Draw(t, "to-spelling")
	}
	c.Signer = rapid.SampledFrom([]string{"", "", "vesting", "vesting", "operator"}).Draw(t, "signer")
	c.Create = rapid.SampledFrom([]int{0, 0, 0, 1, 2, 3, 4, 5, 6, 6, 7, 8}).Draw(t, "create")
	c.TogglePair = rapid.IntRange(0, 2).Draw(t, "toggle-pair") == 0
	if rapid.IntRange(0, 5).Draw(t, "slashed-destination-scenario") == 0 {
		// (query test) a redelegation whose destination validator is slashed while the entry is pending
		v := rapid.IntRange(0, 1).Draw(t, "sd-val")
		c.Prelude = []C16Pre{{K: "setw", Val: v, Amt: rapid.SampledFrom([]string{"1000", "250000"}).Draw(t, "sd-amt")}, {K: "slash", Val: v + 1}}
		if rapid.Bool().Draw(t, "sd-second") {
			c.Prelude = append(c.Prelude, C16Pre{K: "undelegate", Val: v + 1, Amt: "1000"})
		}
	}
	if rapid.IntRange(0, 5).Draw(t, "create-validator-scenario") == 0 {
		// a plain, funded account becomes a validator with otherwise valid arguments and one of the argument variants
		c.Method, c.Signer, c.Unknown = "createValidator", "", false
		c.AmtMode, c.Amt = "abs", rapid.SampledFrom([]string{"1000", "500000"}).Draw(t, "cv-amt")
		c.Create = rapid.IntRange(0, 8).Draw(t, "cv-variant")
	}
	if rapid.IntRange(0, 5).Draw(t, "slashed-unbonding-scenario") == 0 {
		// (query test) an unbonding entry that is slashed while pending: its balance falls below its initial balance
		v := rapid.IntRange(0, 2).Draw(t, "su-val")
		c.Prelude = []C16Pre{{K: "undelegate", Val: v, Amt: rapid.SampledFrom([]string{"1000", "250000"}).Draw(t, "su-amt")}, {K: "slash", Val: v, Amt: "1000"}}
		c.Val, c.Unknown = v, false
	}
	if rapid.IntRange(0, 9).Draw(t, "emptied-validator-scenario") == 0 {
		// the operator of the validator without other delegators withdraws everything; the record stays (no tokens, no
		// shares) and is then the target of the compared call
		c.Signer, c.Val, c.Unknown = "operator", 3, false
		c.Prelude = []C16Pre{{K: "undelegate-all", Val: 3, Amt: "1"}}
		c.Method = rapid.SampledFrom([]string{"delegate", "delegate", "undelegate", "redelegate", "withdraw", "withdrawCommission"}).Draw(t, "ev-method")
		c.AmtMode, c.Amt = "abs", rapid.SampledFrom([]string{"1", "1000", "500000"}).Draw(t, "ev-amt")
	}
	if c.Method == "withdrawCommission" && rapid.IntRange(0, 3).Draw(t, "op") > 0 {
		c.Signer = "operator"
	}
	return c
}

func runC16(st *ev.Stats, c C16Case) string {
	st.Eval()
	fail := func(key, what string) string { return st.Discrepancy(key, what, c) }
	price := new(big.Int).Mul(gwei10, big.NewInt(10))
	feeColl := authtypes.NewModuleAddress(authtypes.FeeCollectorName)
	S := c16Signer(c)
	type outcome struct {
		ok   bool
		fee  *big.Int
		dump map[string]map[string][]byte
		log  string
		feat string
	}
	emptied := false
	run := func(native bool) outcome {
		n := pxBase().Fork()
		n.BeginBlock(chain.BlockIn{})
		app := n.App
		vals := pxVals(n)
		cosmos := func(msgs ...sdk.Msg) (bool, *big.Int, string) {
			num, seq := txb.AccInfo(n.Ctx(), app, S.Addr)
			gas := uint64(1500000)
			bz := txb.CosmosTx(S, txb.Cosmos{Msgs: msgs, Gas: gas, Fee: coinsOfGas(gas, price), ChainID: chain.ChainID, AccNum: num, Seq: seq})
			b0 := n.Balance(feeColl)
			res := n.DeliverTx(bz)
			return res.Code == 0, new(big.Int).Sub(n.Balance(feeColl), b0), res.Log
		}
		for _, p := range c.Prelude {
			v := vals[p.Val%len(vals)].GetOperator()
			coin := sdk.NewCoin(chain.Denom, sdkmath.NewIntFromBigInt(milli(p.Amt)))
			switch p.K {
			case "delegate":
				cosmos(stakingtypes.NewMsgDelegate(S.Addr, v, coin))
			case "undelegate":
				cosmos(stakingtypes.NewMsgUndelegate(S.Addr, v, coin))
			case "undelegate-all":
				// everything the signer has on that validator (for the operator of a validator without other delegators this
				// leaves a validator record with no tokens and no shares)
				if d, found := app.StakingKeeper.GetDelegation(n.Ctx(), S.Addr, v); found {
					if vv, ok := app.StakingKeeper.GetValidator(n.Ctx(), v); ok {
						if ok, _, _ := cosmos(stakingtypes.NewMsgUndelegate(S.Addr, v, sdk.NewCoin(chain.Denom, vv.TokensFromShares(d.Shares).TruncateInt()))); ok {
							if v2, _ := app.StakingKeeper.GetValidator(n.Ctx(), v); v2.Tokens.IsZero() {
								emptied = true
							}
						}
					}
				}
			case "setw":
				cosmos(distrtypes.NewMsgSetWithdrawAddress(S.Addr, pxW.Addr))
			}
		}
		// resolve arguments against the (identical) state
		val := vals[c.Val%len(vals)].GetOperator()
		val2 := vals[c.Val2%len(vals)].GetOperator()
		if c.Unknown {
			val = sdk.ValAddress(chain.Acct("nobody").Addr)
		}
		var amt *big.Int
		switch c.AmtMode {
		case "balance":
			amt = new(big.Int).Add(n.Balance(S.Addr), bigOf(c.Amt))
		case "delegation":
			amt = new(big.Int)
			if d, found := app.StakingKeeper.GetDelegation(n.Ctx(), S.Addr, val); found {
				if v, ok := app.StakingKeeper.GetValidator(n.Ctx(), val); ok {
					amt = v.TokensFromShares(d.Shares).TruncateInt().BigInt()
				}
			}
			amt = new(big.Int).Add(amt, bigOf(c.Amt))
		default:
			amt = milli(c.Amt)
		}
		if amt.Sign() < 0 {
			amt = new(big.Int)
		}
		coin := sdk.Coin{Denom: chain.Denom, Amount: sdkmath.NewIntFromBigInt(amt)}
		h := int64(1)
		if ubd, found := app.StakingKeeper.GetUnbondingDelegation(n.Ctx(), S.Addr, val); found && len(ubd.Entries) > 0 {
			h = ubd.Entries[0].CreationHeight
		}
		h += c.Height
		to := sdk.AccAddress(pxAddrOf(c.To, S.Hex).Bytes())
		// features of the state that select which listed finding (if any) can apply
		feat := "plain"
		if pxPending(n, S.Addr) != "" && hasPositive(pxPending(n, S.Addr), val.String()) && c.Method != "withdraw" && c.Method != "setWithdraw" {
			feat = "pending-rewards"
		}
		if c.Method == "withdraw" && !app.DistrKeeper.GetDelegatorWithdrawAddr(n.Ctx(), S.Addr).Equals(S.Addr) {
			feat = "custom-withdraw-address"
		}
		var ok bool
		var fee *big.Int
		var log string
		if native {
			var msg sdk.Msg
			switch c.Method {
			case "delegate":
				msg = &stakingtypes.MsgDelegate{DelegatorAddress: S.Addr.String(), ValidatorAddress: val.String(), Amount: coin}
			case "undelegate":
				msg = &stakingtypes.MsgUndelegate{DelegatorAddress: S.Addr.String(), ValidatorAddress: val.String(), Amount: coin}
			case "redelegate":
				msg = &stakingtypes.MsgBeginRedelegate{DelegatorAddress: S.Addr.String(), ValidatorSrcAddress: val.String(), ValidatorDstAddress: val2.String(), Amount: coin}
			case "cancelUnbonding":
				msg = &stakingtypes.MsgCancelUnbondingDelegation{DelegatorAddress: S.Addr.String(), ValidatorAddress: val.String(), Amount: coin, CreationHeight: h}
			case "withdraw":
				msg = distrtypes.NewMsgWithdrawDelegatorReward(S.Addr, val)
			case "setWithdraw":
				msg = &distrtypes.MsgSetWithdrawAddress{DelegatorAddress: S.Addr.String(), WithdrawAddress: c16Spell(to, c.ToSpelling)}
			case "withdrawCommission":
				msg = distrtypes.NewMsgWithdrawValidatorCommission(sdk.ValAddress(S.Addr))
			case "createValidator":
				cv := c16CreateArgs(c)
				m, err := stakingtypes.NewMsgCreateValidator(sdk.ValAddress(S.Addr), c16ConsKey.PubKey(), coin, cv.desc,
					stakingtypes.NewCommissionRates(cv.rate, cv.maxRate, cv.maxChange), sdkmath.NewIntFromBigInt(cv.minSelf))
				must(err)
				msg = m
			}
			ok, fee, log = cosmos(msg)
		} else {
			var target common.Address
			var data []byte
			switch c.Method {
			case "delegate":
				target, data = pabi.StakingAddr, pabi.Pack("staking", "delegate", S.Hex, val.String(), amt)
			case "undelegate":
				target, data = pabi.StakingAddr, pabi.Pack("staking", "undelegate", S.Hex, val.String(), amt)
			case "redelegate":
				target, data = pabi.StakingAddr, pabi.Pack("staking", "redelegate", S.Hex, val.String(), val2.String(), amt)
			case "cancelUnbonding":
				target, data = pabi.StakingAddr, pabi.Pack("staking", "cancelUnbondingDelegation", S.Hex, val.String(), amt, big.NewInt(h))
			case "withdraw":
				target, data = pabi.DistributionAddr, pabi.Pack("distribution", "withdrawDelegatorRewards", S.Hex, val.String())
			case "setWithdraw":
				target, data = pabi.DistributionAddr, pabi.Pack("distribution", "setWithdrawAddress", S.Hex, c16Spell(to, c.ToSpelling))
			case "withdrawCommission":
				target, data = pabi.DistributionAddr, pabi.Pack("distribution", "withdrawValidatorCommission", sdk.ValAddress(S.Addr).String())
			case "createValidator":
				cv := c16CreateArgs(c)
				target, data = pabi.StakingAddr, pabi.Pack("staking", "createValidator",
					stakingpc.Description{Moniker: cv.desc.Moniker, Identity: cv.desc.Identity, Website: cv.desc.Website, SecurityContact: cv.desc.SecurityContact, Details: cv.desc.Details},
					stakingpc.Commission{Rate: cv.rate.BigInt(), MaxRate: cv.maxRate.BigInt(), MaxChangeRate: cv.maxChange.BigInt()},
					cv.minSelf, S.Hex, sdk.ValAddress(S.Addr).String(), base64.StdEncoding.EncodeToString(c16ConsKey.PubKey().Bytes()), amt)
			}
			_, seq := txb.AccInfo(n.Ctx(), app, S.Addr)
			bz := txb.EthTx(S, txb.Eth{Type: 0, ChainID: big.NewInt(11235), Nonce: seq, To: &target, Value: big.NewInt(0), Gas: 1500000, GasPrice: price, Data: data})
			b0 := n.Balance(feeColl)
			res := n.DeliverTx(bz)
			vmErr, _ := decodeEthResponse(res.Data)
			ok, fee, log = res.Code == 0 && vmErr == "", new(big.Int).Sub(n.Balance(feeColl), b0), res.Log+" "+vmErr
		}
		n.EndBlockCommit()
		return outcome{ok, fee, n.DumpStores(), log, feat}
	}
	a, b := run(false), run(true)
	if os.Getenv("VERIF_DEBUG") != "" {
		fmt.Printf("DEBUG C16 precompile ok=%v (%s)\n            native ok=%v (%s)\n", a.ok, trunc(a.log), b.ok, trunc(b.log))
	}
	if a.ok != b.ok {
		return fail("outcome-differs:"+c.Method, fmt.Sprintf("precompile call succeeded=%v (%s) but native message succeeded=%v (%s)", a.ok, trunc(a.log), b.ok, trunc(b.log)))
	}
	signerKey, feeKey := bankBalanceKey(S.Addr), bankBalanceKey(feeColl)
	stores := map[string]bool{}
	var first string
	for _, d := range chain.DiffStores(b.dump, a.dump) {
		switch {
		case d.Store == "feemarket":
			continue
		case d.Store == "acc":
			// account records are not part of the compared Cosmos state: the EVM route creates empty records for the
			// precompile address / evm module on first touch and the Cosmos route stores the signer's public key
			continue
		case d.Store == "bank" && string(d.Key) == signerKey:
			if adjusted(d.A, d.B, new(big.Int).Sub(b.fee, a.fee)) {
				continue
			}
		case d.Store == "bank" && string(d.Key) == feeKey:
			if adjusted(d.A, d.B, new(big.Int).Sub(a.fee, b.fee)) {
				continue
			}
		}
		if first == "" {
			first = d.String()
		}
		stores[d.Store] = true
	}
	if len(stores) > 0 {
		var ss []string
		for s := range stores {
			ss = append(ss, s)
		}
		sort.Strings(ss)
		for _, s := range ss {
			if msg := fail("effect-differs:"+c.Method+":"+s+":"+a.feat, fmt.Sprintf("precompile %s (ok=%v) and the native message leave different %s state; first difference %s", c.Method, a.ok, s, trunc(first))); msg != "" {
				return msg
			}
			st.Class("known:effect-differs:" + c.Method + ":" + s + ":" + a.feat)
		}
		return ""
	}
	st.Class("signer:" + S.Label)
	if emptied {
		st.Class("prelude-emptied-a-validator")
	}
	if a.ok {
		st.Class("both-succeed:" + c.Method + ":" + c.Signer)
		if c.Signer == "vesting" {
			st.NonTrivial(c)
		}
	} else {
		st.Class("both-fail:" + c.Method + ":" + c.Signer)
		st.NonTrivial(c)
	}
	return ""
}

// ---- queries ---------------------------------------------------------------------------------------------------

func runC16Query(st *ev.Stats, c C16Case) string {
	st.Eval()
	fail := func(key, what string) string { return st.Discrepancy(key, what, c) }
	n := pxBase().Fork()
	n.BeginBlock(chain.BlockIn{})
	app := n.App
	vals := pxVals(n)
	slashed := false
	for _, p := range c.Prelude {
		v := vals[p.Val%len(vals)].GetOperator()
		coin := sdk.NewCoin(chain.Denom, sdkmath.NewIntFromBigInt(milli(p.Amt)))
		num, seq := txb.AccInfo(n.Ctx(), app, pxSigner.Addr)
		if p.K == "slash" {
			// the validator is slashed (keeper level, as the evidence handler would): exchange rates move away from 1,
			// so balances derived from shares differ from the amounts originally moved
			if sv, ok := app.StakingKeeper.GetValidator(n.Ctx(), v); ok && sv.IsBonded() {
				cons, err := sv.GetConsAddr()
				must(err)
				// (an infraction at the current height leaves pending unbondings alone; an older one - amount "1000" selects
				// height 2, before every unbonding of the prepared chain - slashes them too)
				inf := n.Header.Height
				if p.Amt == "1000" {
					inf = 2
				}
				app.StakingKeeper.Slash(n.Ctx(), cons, inf, sv.GetConsensusPower(app.StakingKeeper.PowerReduction(n.Ctx())), sdk.NewDecWithPrec(5, 2))
				slashed = true
			}
			continue
		}
		var msg sdk.Msg = stakingtypes.NewMsgDelegate(pxSigner.Addr, v, coin)
		switch p.K {
		case "undelegate":
			msg = stakingtypes.NewMsgUndelegate(pxSigner.Addr, v, coin)
		case "setw", "undelegate-all":
			// (queries: these prelude kinds stand for a redelegation to the next validator, which creates the entries
			// the redelegation queries read)
			msg = stakingtypes.NewMsgBeginRedelegate(pxSigner.Addr, v, vals[(p.Val+1)%len(vals)].GetOperator(), coin)
		}
		n.DeliverTx(txb.CosmosTx(pxSigner, txb.Cosmos{Msgs: []sdk.Msg{msg}, Gas: 1500000, Fee: coinsOfGas(1500000, gwei10), ChainID: chain.ChainID, AccNum: num, Seq: seq}))
	}
	if c.TogglePair {
		cctx, write := n.Ctx().CacheContext()
		if _, err := app.Erc20Keeper.ToggleConversion(cctx, "uxmpl"); err == nil {
			write()
			st.Class("pair-switched-off")
		}
	}
	ctx := n.Ctx()
	call := func(name, method string, args ...interface{}) ([]interface{}, error) {
		to := pabi.Addr(name)
		cctx, _ := ctx.CacheContext()
		res, err := app.Erc20Keeper.CallEVMWithData(cctx, pxOther.Hex, &to, pabi.Pack(name, method, args...), false)
		if err != nil {
			return nil, err
		}
		return pabi.ABI(name).Unpack(method, res.Ret)
	}
	val, _ := app.StakingKeeper.GetValidator(ctx, vals[c.Val%len(vals)].GetOperator()) // re-read after the prelude
	multi, registered := 0, 0
	for _, who := range []chain.Account{pxSigner, pxThird, pxVest} {
		// delegation(delegator, validator) -> (shares, balance)
		out, err := call("staking", "delegation", who.Hex, val.OperatorAddress)
		d, found := app.StakingKeeper.GetDelegation(ctx, who.Addr, val.GetOperator())
		if err != nil {
			return fail("query-failed:staking.delegation", err.Error())
		}
		wantShares, wantBal := new(big.Int), new(big.Int)
		if found {
			wantShares = d.Shares.BigInt()
			wantBal = val.TokensFromShares(d.Shares).TruncateInt().BigInt()
		}
		gotShares := out[0].(*big.Int)
		gotBal := reflectField(out[1], "Amount")
		if gotShares.Cmp(wantShares) != 0 || gotBal.Cmp(wantBal) != 0 {
			return fail("query-differs:staking.delegation", fmt.Sprintf("delegation(%s,%s) = shares %s balance %s, native %s / %s", who.Label, val.OperatorAddress, gotShares, gotBal, wantShares, wantBal))
		}
		// unbondingDelegation entries
		out, err = call("staking", "unbondingDelegation", who.Hex, val.OperatorAddress)
		if err != nil {
			return fail("query-failed:staking.unbondingDelegation", err.Error())
		}
		ubd, _ := app.StakingKeeper.GetUnbondingDelegation(ctx, who.Addr, val.GetOperator())
		got := fmt.Sprint(out[0])
		for _, e := range ubd.Entries {
			if !containsAll(got, e.Balance.String(), fmt.Sprint(e.CreationHeight)) {
				return fail("query-differs:staking.unbondingDelegation", fmt.Sprintf("unbonding entry %+v missing from %s", e, trunc(got)))
			}
		}
		// entry by entry, field by field (initial balance and balance differ once the entry has been slashed)
		if ents := reflect.ValueOf(out[0]).FieldByName("Entries"); ents.IsValid() {
			if ents.Len() != len(ubd.Entries) {
				return fail("query-differs:staking.unbondingDelegation", fmt.Sprintf("%d entries reported, %d stored: %s", ents.Len(), len(ubd.Entries), trunc(got)))
			}
			for i, e := range ubd.Entries {
				ge := ents.Index(i).Interface()
				if reflectField(ge, "Balance").Cmp(e.Balance.BigInt()) != 0 || reflectField(ge, "InitialBalance").Cmp(e.InitialBalance.BigInt()) != 0 ||
					reflect.ValueOf(ge).FieldByName("CreationHeight").Int() != e.CreationHeight || reflect.ValueOf(ge).FieldByName("CompletionTime").Int() != e.CompletionTime.UTC().Unix() {
					return fail("query-differs:staking.unbondingDelegation", fmt.Sprintf("entry %d reported as %+v, stored %+v", i, ge, e))
				}
				if !e.Balance.Equal(e.InitialBalance) {
					st.Class("slashed-unbonding-entry-queried")
				}
			}
		} else if len(ubd.Entries) > 0 {
			return fail("query-differs:staking.unbondingDelegation", "the answer has no entry list: "+trunc(got))
		}
		if len(ubd.Entries) >= 2 {
			multi++
		}
		// bank.balances(account) vs bank keeper for every denom that has an ERC20 address
		out, err = call("bank", "balances", who.Hex)
		if err != nil {
			return fail("query-failed:bank.balances", err.Error())
		}
		gotB := fmt.Sprint(out[0])
		for _, coin := range app.BankKeeper.GetAllBalances(ctx, who.Addr) {
			if addr, err := app.Erc20Keeper.GetCoinAddress(ctx, coin.Denom); err == nil {
				registered++
				if !containsAll(gotB, coin.Amount.String(), addr.Hex()) {
					return fail("query-differs:bank.balances", fmt.Sprintf("balance %s (token %s) missing from %s", coin, addr.Hex(), trunc(gotB)))
				}
			}
		}
	}
	// redelegation(delegator, src, dst) for every ordered validator pair
	type pageReq struct {
		Key        []byte
		Offset     uint64
		Limit      uint64
		CountTotal bool
		Reverse    bool
	}
	nRed := 0
	for _, src := range vals {
		for _, dst := range vals {
			if src.OperatorAddress == dst.OperatorAddress {
				continue
			}
			red, found := app.StakingKeeper.GetRedelegation(ctx, pxSigner.Addr, src.GetOperator(), dst.GetOperator())
			out, err := call("staking", "redelegation", pxSigner.Hex, src.OperatorAddress, dst.OperatorAddress)
			if err != nil {
				return fail("query-failed:staking.redelegation", err.Error())
			}
			got := fmt.Sprint(out[0])
			if found {
				nRed++
				for _, e := range red.Entries {
					if !containsAll(got, e.InitialBalance.String(), fmt.Sprint(e.CreationHeight), e.SharesDst.TruncateInt().String()) {
						return fail("query-differs:staking.redelegation", fmt.Sprintf("redelegation %s -> %s entry %+v missing from %s", src.OperatorAddress, dst.OperatorAddress, e, trunc(got)))
					}
				}
				// the paginated variant reports the same entries
				outs, err := call("staking", "redelegations", pxSigner.Hex, src.OperatorAddress, dst.OperatorAddress, pageReq{Limit: 10})
				if err != nil {
					return fail("query-failed:staking.redelegations", err.Error())
				}
				gots := fmt.Sprint(outs[0])
				dstNow, _ := app.StakingKeeper.GetValidator(ctx, dst.GetOperator())
				for _, e := range red.Entries {
					// the paginated form also carries the entry's current balance: what the destination shares are worth now
					if bal := dstNow.TokensFromShares(e.SharesDst).TruncateInt(); !containsAll(gots, bal.String()) {
						return fail("query-differs:staking.redelegations", fmt.Sprintf("redelegations(%s -> %s): current balance %s of entry %+v not reported: %s", src.OperatorAddress, dst.OperatorAddress, bal, e, trunc(gots)))
					} else if !bal.Equal(e.InitialBalance) {
						st.Class("redelegation-balance-differs-from-initial")
					}
					if !containsAll(gots, e.InitialBalance.String(), fmt.Sprint(e.CreationHeight)) {
						return fail("query-differs:staking.redelegations", fmt.Sprintf("redelegations(%s -> %s) lacks entry %+v: %s", src.OperatorAddress, dst.OperatorAddress, e, trunc(gots)))
					}
				}
			} else if strings.Contains(got, src.OperatorAddress) && strings.Contains(got, "{") && containsAll(got, "creationHeight") {
				return fail("query-differs:staking.redelegation", fmt.Sprintf("redelegation %s -> %s does not exist natively but the precompile reports %s", src.OperatorAddress, dst.OperatorAddress, trunc(got)))
			}
		}
	}
	if nRed > 0 {
		st.Class("redelegation-entries-compared")
	}
	if slashed {
		st.Class("with-slashed-validator")
	}
	// validators(status, page): every validator of that status with its tokens, nobody else
	for _, status := range []string{stakingtypes.BondStatusBonded, stakingtypes.BondStatusUnbonding, stakingtypes.BondStatusUnbonded} {
		outv, err := call("staking", "validators", status, pageReq{Limit: 50})
		if err != nil {
			return fail("query-failed:staking.validators", err.Error())
		}
		gotv := fmt.Sprint(outv[0])
		for _, v := range app.StakingKeeper.GetAllValidators(ctx) {
			has := strings.Contains(gotv, v.OperatorAddress)
			if want := v.GetStatus().String() == status; has != want {
				return fail("query-differs:staking.validators", fmt.Sprintf("validators(%s): %s (status %s) listed=%v", status, v.OperatorAddress, v.GetStatus(), has))
			} else if want && !strings.Contains(gotv, v.Tokens.String()) {
				return fail("query-differs:staking.validators", fmt.Sprintf("validators(%s): tokens %s of %s not reported: %s", status, v.Tokens, v.OperatorAddress, trunc(gotv)))
			}
		}
	}
	// validator(address)
	out, err := call("staking", "validator", val.OperatorAddress)
	if err != nil {
		return fail("query-failed:staking.validator", err.Error())
	}
	if g := fmt.Sprint(out[0]); !containsAll(g, val.Tokens.String(), val.OperatorAddress) {
		return fail("query-differs:staking.validator", fmt.Sprintf("validator %s tokens %s not in %s", val.OperatorAddress, val.Tokens, trunc(g)))
	}
	out, err = call("bank", "totalSupply")
	if err != nil {
		return fail("query-failed:bank.totalSupply", err.Error())
	}
	gotS := fmt.Sprint(out[0])
	var serr string
	app.BankKeeper.IterateTotalSupply(ctx, func(coin sdk.Coin) bool {
		if addr, err := app.Erc20Keeper.GetCoinAddress(ctx, coin.Denom); err == nil && !containsAll(gotS, coin.Amount.String(), addr.Hex()) {
			serr = fmt.Sprintf("supply %s (token %s) missing from %s", coin, addr.Hex(), trunc(gotS))
		}
		return false
	})
	if serr != "" {
		return fail("query-differs:bank.totalSupply", serr)
	}
	if registered == 0 {
		return fail("harness:no-registered-denomination", "no queried account holds a denomination with an ERC20 address: the bank comparison would be vacuous")
	}
	// supplyOf(token) for every registered pair
	for _, pair := range app.Erc20Keeper.GetTokenPairs(ctx) {
		out, err := call("bank", "supplyOf", pair.GetERC20Contract())
		if err != nil {
			return fail("query-failed:bank.supplyOf", err.Error())
		}
		if want := app.BankKeeper.GetSupply(ctx, pair.Denom).Amount.BigInt(); out[0].(*big.Int).Cmp(want) != 0 {
			return fail("query-differs:bank.supplyOf", fmt.Sprintf("supplyOf(%s) = %s, bank supply of %s is %s", pair.Erc20Address, out[0], pair.Denom, want))
		}
	}
	st.Class("queries-agree")
	if multi > 0 {
		st.Class("two-or-more-unbonding-entries")
		st.NonTrivial(c)
	}
	return ""
}

// hasPositive: the pending-rewards string has a non-zero entry for the validator.
func hasPositive(pending, val string) bool {
	for _, part := range strings.Split(pending, ";") {
		if strings.HasPrefix(part, val+"=") && part != val+"=" && !strings.HasPrefix(part, val+"=0.000000000000000000") {
			return true
		}
	}
	return false
}

func containsAll(s string, parts ...string) bool {
	for _, p := range parts {
		if !containsFold(s, p) {
			return false
		}
	}
	return true
}

func init() {
	replayers["TestC16_TxEquivalence"] = func(st *ev.Stats, raw json.RawMessage) string {
		var c C16Case
		must(json.Unmarshal(raw, &c))
		return runC16(st, c)
	}
	replayers["TestC16_Queries"] = func(st *ev.Stats, raw json.RawMessage) string {
		var c C16Case
		must(json.Unmarshal(raw, &c))
		return runC16Query(st, c)
	}
}

func TestC16_TxEquivalence(t *testing.T) {
	st := ev.New("C16", "TestC16_TxEquivalence", "method x arguments (existing / unknown validator, amount 0, 1, balance±1, delegation±1, huge, creation height ±1, withdraw targets) x state reached by 0-3 native prelude txs; the owner calls the precompile on one fork and signs the native message on another; non-trivial = argument tuples for which the native message fails")
	runCorpus(t, st)
	runRapid(t, st, 300, 20000, func(rt *rapid.T) {
		if msg := runC16(st, genC16(rt)); msg != "" {
			rt.Fatalf("%s", msg)
		}
	})
}

func TestC16_Queries(t *testing.T) {
	st := ev.New("C16", "TestC16_Queries", "read-only staking methods (delegation, unbondingDelegation, validator) and bank methods (balances, totalSupply) called through the EVM on generated states and compared with the native keepers; non-trivial = a delegator with >= 2 unbonding entries on the queried validator")
	runCorpus(t, st)
	runRapid(t, st, 150, 8000, func(rt *rapid.T) {
		if msg := runC16Query(st, genC16(rt)); msg != "" {
			rt.Fatalf("%s", msg)
		}
	})
}

func c16Spell(a sdk.AccAddress, how string) string {
	switch how {
	case "valoper":
		return sdk.ValAddress(a).String()
	case "cosmos":
		s, err := bech32.ConvertAndEncode("cosmos", a)
		must(err)
		return s
	case "upper":
		return strings.ToUpper(a.String())
	case "empty":
		return ""
	case "garbage":
		return a.String()[:len(a.String())-3] + "qqq"
	}
	return a.String()
}
