package props

// C17 over real blocks: the gas figure a block leaves behind and the base fee of the next block, with transactions
// going through the real ante handlers (where the declared gas is accumulated) and the fee market activated at genesis,
// at the first block or at a later height.

import (
	"encoding/json"
	"fmt"
	"math/big"
	"testing"

	sdkmath "cosmossdk.io/math"
	"github.com/cosmos/cosmos-sdk/codec"
	sdk "github.com/cosmos/cosmos-sdk/types"
	"github.com/cosmos/cosmos-sdk/types/tx/signing"
	banktypes "github.com/cosmos/cosmos-sdk/x/bank/types"
	"github.com/ethereum/go-ethereum/common"
	"pgregory.net/rapid"

	haqqtypes "github.com/haqq-network/haqq/types"
	feemarkettypes "github.com/haqq-network/haqq/x/feemarket/types"

	"verif/chain"
	"verif/ev"
	"verif/txb"
)

type C17ChainTx struct {
	Kind int    `json:"kind"` // 0 cosmos send, 1 eth transfer, 2 cosmos send with too small a fee (refused), 3 cosmos send of more than the balance (fails after the ante handler), 4 cosmos send signed as legacy EIP-712 typed data (Web3 extension route)
	From int    `json:"from"`
	Gas  uint64 `json:"gas"`
}

type C17ChainCase struct {
	MaxGas   int64          `json:"max_gas"`
	Elast    uint32         `json:"elasticity"`
	Denom    uint32         `json:"denominator"`
	BaseFee  string         `json:"base_fee"`
	MinGP    string         `json:"min_gas_price"`
	Mult     string         `json:"min_gas_multiplier"`
	EnableAt int64          `json:"enable_height"`
	Blocks   [][]C17ChainTx `json:"blocks"`
}

const c17ChainAccts = 4

func genC17Chain(t *rapid.T) C17ChainCase {
	c := C17ChainCase{}
	c.MaxGas = rapid.SampledFrom([]int64{2000000, 10000000, 10000000, 40000000, 40000000, 100000000, -1}).Draw(t, "maxgas")
	lim := c.MaxGas
	if lim < 0 {
		lim = 40000000 // unlimited blocks: declared gas in the range of a usual limit
	}
	c.Elast = rapid.SampledFrom([]uint32{1, 2, 2, 2, 4, 20}).Draw(t, "elast")
	c.Denom = rapid.SampledFrom([]uint32{1, 2, 8, 8, 8, 50}).Draw(t, "denom")
	c.BaseFee = rapid.SampledFrom([]string{"1000000000", "1000000000", "7", "123456789123", "1"}).Draw(t, "basefee")
	c.MinGP = rapid.SampledFrom([]string{"0", "0", "1", "999999999.5", "1000000000", "5"}).Draw(t, "mingp")
	c.Mult = rapid.SampledFrom([]string{"0.5", "0.5", "0.5", "1", "0", "0.1", "0.999999999999999999"}).Draw(t, "mult")
	// the chain's first block after genesis is height 2
	c.EnableAt = rapid.SampledFrom([]int64{0, 0, 1, 2, 3, 4, 5}).Draw(t, "enable")
	nb := rapid.IntRange(2, 6).Draw(t, "blocks")
	for b := 0; b < nb; b++ {
		var blk []C17ChainTx
		nt := rapid.SampledFrom([]int{0, 1, 1, 2, 3, 5}).Draw(t, "ntx")
		for i := 0; i < nt; i++ {
			x := C17ChainTx{From: rapid.IntRange(0, c17ChainAccts-1).Draw(t, "from")}
			x.Kind = rapid.SampledFrom([]int{0, 0, 0, 1, 1, 2, 3, 4, 4}).Draw(t, "kind")
			switch rapid.IntRange(0, 5).Draw(t, "gas-kind") {
			case 0:
				x.Gas = 200000
			case 1:
				// declares far more than it uses
				x.Gas = uint64(rapid.Int64Range(lim/4, lim).Draw(t, "gas-big"))
			case 2:
				x.Gas = uint64(lim) / uint64(c.Elast) // the target itself (of a limited block)
			case 3:
				x.Gas = uint64(lim) + uint64(rapid.IntRange(0, 1).Draw(t, "over")) // at / just over the block gas limit
			default:
				x.Gas = rapid.Uint64Range(21000, 3000000).Draw(t, "gas")
				if x.Kind != 1 && x.Gas < 90000 {
					x.Gas += 90000 // a bank send needs about 80k; out-of-gas cases come from the other branches
				}
			}
			blk = append(blk, x)
		}
		c.Blocks = append(c.Blocks, blk)
	}
	return c
}

func runC17Chain(st *ev.Stats, c C17ChainCase) string {
	st.Eval()
	fail := func(key, what string) string { return st.Discrepancy(key, what, c) }
	accts := chain.Accts("c17c", c17ChainAccts)
	sink := chain.Acct("c17c-sink")
	base0 := bigOf(c.BaseFee)
	minDec := sdk.MustNewDecFromStr(c.MinGP)
	minGP := minDec.TruncateInt().BigInt()
	mult := sdk.MustNewDecFromStr(c.Mult)
	n := chain.NewNode(chain.Opts{Accounts: append(accts, sink), MaxGas: c.MaxGas, Balance: sdkmath.NewIntFromBigInt(new(big.Int).Exp(big.NewInt(10), big.NewInt(30), nil)), Mutate: func(cdc codec.Codec, gs haqqtypes.GenesisState) {
		var fg feemarkettypes.GenesisState
		cdc.MustUnmarshalJSON(gs[feemarkettypes.ModuleName], &fg)
		fg.Params = feemarkettypes.Params{NoBaseFee: false, BaseFeeChangeDenominator: c.Denom, ElasticityMultiplier: c.Elast,
			BaseFee: sdkmath.NewIntFromBigInt(base0), EnableHeight: c.EnableAt, MinGasPrice: minDec, MinGasMultiplier: mult}
		must(fg.Params.Validate())
		gs[feemarkettypes.ModuleName] = cdc.MustMarshalJSON(&fg)
	}})
	k := n.App.FeeMarketKeeper
	T := c17Target(C17Case{MaxGas: c.MaxGas, Elast: c.Elast})
	// a gas price far above anything the base fee can reach in six blocks
	price := new(big.Int).Mul(base0, big.NewInt(1000000))
	if price.Cmp(gwei10) < 0 {
		price = new(big.Int).Mul(gwei10, big.NewInt(1000))
	}
	if m := new(big.Int).Mul(minGP, big.NewInt(2)); price.Cmp(m) < 0 {
		price = m
	}
	seqOf := func(a chain.Account) uint64 { _, s := txb.AccInfo(n.Ctx(), n.App, a.Addr); return s }

	refBase := new(big.Int).Set(base0) // base fee of the previous block according to the statement
	var refFigure *big.Int             // gas figure of the previous block according to the statement; nil = not defined yet
	if c.EnableAt < 2 {
		refFigure = new(big.Int) // the genesis block holds no transactions
	}
	interesting := false
	for bi, blk := range c.Blocks {
		n.BeginBlock(chain.BlockIn{})
		h := n.Header.Height
		// read from the parameters: a base fee that legitimately reached zero (zero minimum gas price) is reported as
		// "none" by the keeper's getter
		got := k.GetParams(n.Ctx()).BaseFee.BigInt()
		if got == nil {
			return fail("chain:base-fee-nil", fmt.Sprintf("block %d: no base fee although the fee market is not disabled", h))
		}
		// base fee of this block
		switch {
		case h <= c.EnableAt:
			// not active yet / first active block: the configured base fee
			if got.Cmp(base0) != 0 {
				return fail("chain:base-fee-before-activation", fmt.Sprintf("block %d (activation height %d): base fee %s, configured %s", h, c.EnableAt, got, base0))
			}
			refBase = new(big.Int).Set(base0)
		case refFigure == nil:
			// the first block of the test with an active fee market whose parent figure this test did not observe (genesis)
			refBase = new(big.Int).Set(got)
		default:
			if !refFigure.IsUint64() {
				panic("figure out of range")
			}
			want, branch := c17Ref(refBase, refFigure.Uint64(), T, c.Denom, minGP)
			st.Class("chain:" + branch)
			if got.Cmp(want) != 0 {
				return fail("chain:base-fee:"+branch, fmt.Sprintf("block %d: base fee %s; the statement gives %s from parent %s, figure %s, target %d, denominator %d, min gas price %s",
					h, got, want, refBase, refFigure, T, c.Denom, minGP))
			}
			if branch != "equal" {
				interesting = true
			}
			refBase = want
		}
		// transactions
		wanted, used := new(big.Int), new(big.Int)
		overDeclared := false
		for ti, x := range blk {
			from := accts[x.From]
			num, seq := txb.AccInfo(n.Ctx(), n.App, from.Addr)
			var bz []byte
			switch x.Kind {
			case 1:
				to := common.BytesToAddress(sink.Addr)
				bz = txb.EthTx(from, txb.Eth{Type: 0, ChainID: big.NewInt(11235), Nonce: seq, To: &to, Value: big.NewInt(int64(1 + ti)), Gas: x.Gas, GasPrice: price})
			default:
				amt := big.NewInt(int64(1000 + bi))
				fee := coinsOfGas(x.Gas, price)
				if x.Kind == 2 {
					fee = sdk.NewCoins()
					if minGP.Sign() == 0 {
						// with a zero floor an empty fee is acceptable: make the signature wrong instead
						seq += 7
					}
				}
				if x.Kind == 3 {
					amt = new(big.Int).Mul(oneISLM, big.NewInt(1000000000000000))
				}
				msg := banktypes.NewMsgSend(from.Addr, sink.Addr, sdk.NewCoins(sdk.NewCoin(chain.Denom, sdkmath.NewIntFromBigInt(amt))))
				cb := txb.Cosmos{Msgs: []sdk.Msg{msg}, Gas: x.Gas, Fee: fee, ChainID: chain.ChainID, AccNum: num, Seq: seq}
				if x.Kind == 4 {
					cb.Mode = signing.SignMode_SIGN_MODE_LEGACY_AMINO_JSON
					b, err := txb.EIP712(from, cb, 11235, true)
					must(err)
					bz = txb.Encode(b)
				} else {
					bz = txb.CosmosTx(from, cb)
				}
			}
			before := seqOf(from)
			res := n.DeliverTx(bz)
			passedAnte := seqOf(from) != before
			// what the block gas meter is charged: the transaction's consumption, saturating at its own limit when it
			// ran out of gas
			u := res.GasUsed
			if res.GasWanted > 0 && u > res.GasWanted {
				u = res.GasWanted
				st.Class("chain-tx:out-of-gas")
			}
			used.Add(used, big.NewInt(u))
			if passedAnte {
				wanted.Add(wanted, new(big.Int).SetUint64(x.Gas))
				if x.Kind != 1 && res.GasUsed > 0 && x.Gas > 4*uint64(res.GasUsed) {
					overDeclared = true
				}
			}
			st.Class(fmt.Sprintf("chain-tx:kind%d:ante-%v:ok-%v", x.Kind, passedAnte, res.Code == 0))
		}
		n.EndBlockCommit()
		// the figure this block leaves behind (only defined once the fee market is active)
		if h < c.EnableAt {
			refFigure = nil
			continue
		}
		if lim := big.NewInt(c.MaxGas); c.MaxGas > 0 && used.Cmp(lim) > 0 {
			used = lim // the block gas meter saturates at the block gas limit
		}
		w := new(big.Int).Mul(wanted, mult.BigInt())
		w.Quo(w, new(big.Int).Exp(big.NewInt(10), big.NewInt(18), nil))
		fig := w
		if used.Cmp(fig) > 0 {
			fig = used
		}
		stored := k.GetBlockGasWanted(n.App.BaseApp.NewContext(true, n.Header))
		if new(big.Int).SetUint64(stored).Cmp(fig) != 0 {
			return fail("chain:block-gas-figure", fmt.Sprintf("block %d (activation height %d): declared gas of accepted txs %s, gas used %s, multiplier %s: stored figure %d, statement gives max(floor(w*m),u) = %s",
				h, c.EnableAt, wanted, used, c.Mult, stored, fig))
		}
		if overDeclared && w.Cmp(used) > 0 {
			st.Class("chain:figure-from-declared-gas")
			if h == c.EnableAt {
				st.Class("chain:figure-from-declared-gas-at-activation-height")
			}
			interesting = true
		}
		refFigure = fig
	}
	if interesting {
		st.NonTrivial(c)
	}
	return ""
}

func init() {
	replayers["TestC17_Chain"] = func(st *ev.Stats, raw json.RawMessage) string {
		var c C17ChainCase
		must(json.Unmarshal(raw, &c))
		return runC17Chain(st, c)
	}
}

func TestC17_Chain(t *testing.T) {
	st := ev.New("C17", "TestC17_Chain", "(fee market parameters at genesis incl. activation height 0/1/first block/later, finite block gas limit; 2-6 blocks of Cosmos sends and Ethereum transfers declaring little, the target, far more than they use, or more than the block allows, incl. refused and failing ones) through the real ante handlers; after every block the stored gas figure and the next block's base fee are compared with the statement; non-trivial = a base fee change, or a figure decided by declared gas")
	runCorpus(t, st)
	runRapid(t, st, 1200, 40000, func(rt *rapid.T) {
		if msg := runC17Chain(st, genC17Chain(rt)); msg != "" {
			rt.Fatalf("%s", msg)
		}
	})
}
