package props

// C17 — base fee follows EIP-1559 and stays within its bounds (function level + EndBlock gas figure).
// Oracle: a literal math/big transcription of the property statement.

import (
	"encoding/json"
	"fmt"
	"math/big"
	"sync"
	"testing"

	sdkmath "cosmossdk.io/math"
	tmproto "github.com/cometbft/cometbft/proto/tendermint/types"
	sdk "github.com/cosmos/cosmos-sdk/types"
	"pgregory.net/rapid"

	"verif/chain"
	"verif/ev"

	feemarkettypes "github.com/haqq-network/haqq/x/feemarket/types"
)

type C17Case struct {
	Parent   string `json:"parent_base_fee"`
	G        uint64 `json:"g"`  // previous block gas figure
	G2       uint64 `json:"g2"` // second gas figure for the monotonicity relation
	MaxGas   int64  `json:"max_gas"`
	Elast    uint32 `json:"elasticity"`
	Denom    uint32 `json:"denominator"`
	MinGP    string `json:"min_gas_price"` // LegacyDec string
	Height   int64  `json:"height"`
	EnableAt int64  `json:"enable_height"`
}

var (
	c17Once sync.Once
	c17Node *chain.Node
)

func c17Setup() {
	c17Once.Do(func() {
		c17Node = chain.NewNode(chain.Opts{Accounts: chain.Accts("c17", 1)})
		c17Node.BeginBlock(chain.BlockIn{})
	})
}

func genBig(t *rapid.T, label string, maxBits int) *big.Int {
	bits := rapid.IntRange(0, maxBits).Draw(t, label+"-bits")
	if bits == 0 {
		return new(big.Int)
	}
	bs := rapid.SliceOfN(rapid.Byte(), (bits+7)/8, (bits+7)/8).Draw(t, label)
	v := new(big.Int).SetBytes(bs)
	v.SetBit(v, bits-1, 1)
	v.And(v, new(big.Int).Sub(new(big.Int).Lsh(big.NewInt(1), uint(bits)), big.NewInt(1)))
	return v
}

func genC17(t *rapid.T) C17Case {
	c := C17Case{}
	c.Parent = genBig(t, "parent", 100).String()
	c.Elast = rapid.SampledFrom([]uint32{1, 2, 2, 2, 3, 4, 10, 1000, 1<<32 - 1}).Draw(t, "elast")
	if rapid.IntRange(0, 4).Draw(t, "elast-rand") == 0 {
		c.Elast = rapid.Uint32Range(1, 1<<32-1).Draw(t, "elast-v")
	}
	c.Denom = rapid.SampledFrom([]uint32{1, 2, 8, 8, 8, 50, 1000, 1<<32 - 1}).Draw(t, "denom")
	if rapid.IntRange(0, 4).Draw(t, "denom-rand") == 0 {
		c.Denom = rapid.Uint32Range(1, 1<<32-1).Draw(t, "denom-v")
	}
	switch rapid.IntRange(0, 5).Draw(t, "maxgas-kind") {
	case 0:
		c.MaxGas = -1
	case 1:
		c.MaxGas = rapid.SampledFrom([]int64{21000, 1000000, 10000000, 30000000, 40000000, 1 << 40, 1<<63 - 1}).Draw(t, "maxgas")
	default:
		c.MaxGas = rapid.Int64Range(int64(c.Elast), 1<<50).Draw(t, "maxgas-v")
	}
	if c.MaxGas >= 0 && c.MaxGas < int64(c.Elast) {
		c.MaxGas = int64(c.Elast) // target 0 is outside the property's domain (T undefined)
	}
	target := c17Target(c)
	// gas figure: around the target, 0, small, huge
	pick := func(label string) uint64 {
		switch rapid.IntRange(0, 7).Draw(t, label+"-kind") {
		case 0:
			return 0
		case 1:
			return target
		case 2:
			if target > 0 {
				return target - 1
			}
			return 0
		case 3:
			return target + 1
		case 4:
			if target > 1 {
				return rapid.Uint64Range(0, target-1).Draw(t, label+"-below")
			}
			return 0
		case 5:
			hi := target * 2
			if hi < target {
				hi = ^uint64(0)
			}
			return rapid.Uint64Range(target, hi).Draw(t, label+"-above")
		case 6:
			return rapid.Uint64().Draw(t, label+"-any")
		default:
			return rapid.Uint64Range(0, 100000000).Draw(t, label+"-small")
		}
	}
	c.G, c.G2 = pick("g"), pick("g2")
	c.MinGP = rapid.SampledFrom([]string{"0", "0", "1", "0.5", "1000000000", "1000000000.999999999999999999", "20000000000", "0.000000000000000001", "123456789012345678901234567890.5"}).Draw(t, "mingp")
	if rapid.IntRange(0, 3).Draw(t, "mingp-near") == 0 {
		// near the parent base fee, so the clamp is hit
		p, _ := new(big.Int).SetString(c.Parent, 10)
		d := big.NewInt(rapid.Int64Range(-3, 3).Draw(t, "mingp-off"))
		p.Add(p, d)
		if p.Sign() < 0 {
			p.SetInt64(0)
		}
		c.MinGP = p.String()
	}
	c.EnableAt = 0
	c.Height = rapid.Int64Range(1, 1000000).Draw(t, "height")
	if rapid.IntRange(0, 19).Draw(t, "first") == 0 {
		c.EnableAt = c.Height // first EIP-1559 block: returns the configured base fee
	}
	return c
}

func c17Target(c C17Case) uint64 {
	limit := new(big.Int).SetUint64(^uint64(0))
	if c.MaxGas > -1 {
		limit = big.NewInt(c.MaxGas)
	}
	return new(big.Int).Div(limit, big.NewInt(int64(c.Elast))).Uint64()
}

// c17Ref is the statement, literally.
func c17Ref(parent *big.Int, g, T uint64, denom uint32, minGP *big.Int) (*big.Int, string) {
	gb, Tb, D := new(big.Int).SetUint64(g), new(big.Int).SetUint64(T), big.NewInt(int64(denom))
	switch {
	case g == T:
		return new(big.Int).Set(parent), "equal"
	case g > T:
		d := new(big.Int).Mul(parent, new(big.Int).Sub(gb, Tb))
		d.Quo(d, Tb)
		d.Quo(d, D)
		if d.Cmp(big.NewInt(1)) < 0 {
			d.SetInt64(1)
		}
		return d.Add(d, parent), "raise"
	default:
		d := new(big.Int).Mul(parent, new(big.Int).Sub(Tb, gb))
		d.Quo(d, Tb)
		d.Quo(d, D)
		r := new(big.Int).Sub(parent, d)
		if r.Cmp(minGP) < 0 {
			return new(big.Int).Set(minGP), "lower-clamped"
		}
		return r, "lower"
	}
}

func runC17(st *ev.Stats, c C17Case) string {
	c17Setup()
	st.Eval()
	fail := func(key, what string) string { return st.Discrepancy(key, what, c) }
	k := c17Node.App.FeeMarketKeeper
	parent, _ := new(big.Int).SetString(c.Parent, 10)
	minDec := sdk.MustNewDecFromStr(c.MinGP)
	minGP := minDec.TruncateInt().BigInt()
	eval := func(g uint64) (*big.Int, string) {
		ctx, _ := c17Node.Ctx().CacheContext()
		ctx = ctx.WithBlockHeight(c.Height).WithConsensusParams(&tmproto.ConsensusParams{Block: &tmproto.BlockParams{MaxGas: c.MaxGas, MaxBytes: 200000}})
		p := feemarkettypes.Params{NoBaseFee: false, BaseFeeChangeDenominator: c.Denom, ElasticityMultiplier: c.Elast,
			BaseFee: sdkmath.NewIntFromBigInt(parent), EnableHeight: c.EnableAt, MinGasPrice: minDec, MinGasMultiplier: sdk.NewDecWithPrec(5, 1)}
		if err := p.Validate(); err != nil {
			panic(err)
		}
		if err := k.SetParams(ctx, p); err != nil {
			panic(err)
		}
		k.SetBlockGasWanted(ctx, g)
		var out *big.Int
		var perr string
		func() {
			defer func() {
				if r := recover(); r != nil {
					perr = fmt.Sprint(r)
				}
			}()
			out = k.CalculateBaseFee(ctx)
		}()
		return out, perr
	}
	T := c17Target(c)
	got, perr := eval(c.G)
	if perr != "" {
		return fail("base-fee:panic", "CalculateBaseFee panicked: "+perr)
	}
	if got == nil {
		return fail("base-fee:nil", "CalculateBaseFee returned nil with the base fee enabled")
	}
	if c.Height == c.EnableAt {
		if got.Cmp(parent) != 0 {
			return fail("base-fee:first-block", fmt.Sprintf("first EIP-1559 block returned %s, configured %s", got, parent))
		}
		st.Class("first-block")
		return ""
	}
	want, branch := c17Ref(parent, c.G, T, c.Denom, minGP)
	st.Class(branch)
	if got.Cmp(want) != 0 {
		return fail("base-fee:"+branch, fmt.Sprintf("parent %s g %d T %d denom %d minGP %s: got %s, reference %s", parent, c.G, T, c.Denom, minGP, got, want))
	}
	// monotone in g where the statement's own clamp cannot force a jump (parent >= floor(min gas price))
	if parent.Cmp(minGP) >= 0 {
		got2, perr2 := eval(c.G2)
		if perr2 != "" || got2 == nil {
			return fail("base-fee:panic", "CalculateBaseFee panicked/nil for g2: "+perr2)
		}
		lo, hi, flo, fhi := c.G, c.G2, got, got2
		if lo > hi {
			lo, hi, flo, fhi = hi, lo, fhi, flo
		}
		if flo.Cmp(fhi) > 0 {
			return fail("base-fee:monotone", fmt.Sprintf("g %d -> %s but g %d -> %s (parent %s T %d)", lo, flo, hi, fhi, parent, T))
		}
	}
	delta := new(big.Int).Sub(got, parent)
	if (c.G != T && delta.Sign() != 0) || branch == "lower-clamped" {
		st.NonTrivial(c)
	}
	return ""
}

// ---- EndBlock: the gas figure is max(floor(gasWanted * minGasMultiplier), gasUsed) --------------------------

type C17GasCase struct {
	Wanted uint64 `json:"gas_wanted"`
	Used   uint64 `json:"gas_used"`
	Mult   string `json:"min_gas_multiplier"`
}

func genC17Gas(t *rapid.T) C17GasCase {
	c := C17GasCase{}
	c.Wanted = rapid.SampledFrom([]uint64{0, 1, 21000, 100000, 30000000, 1 << 40, 1<<62 - 1}).Draw(t, "wanted")
	if rapid.Bool().Draw(t, "wanted-rand") {
		c.Wanted = rapid.Uint64Range(0, 1<<62).Draw(t, "wanted-v")
	}
	switch rapid.IntRange(0, 3).Draw(t, "used-kind") {
	case 0:
		c.Used = 0
	case 1:
		c.Used = c.Wanted
	case 2:
		c.Used = rapid.Uint64Range(0, c.Wanted).Draw(t, "used-below")
	default:
		c.Used = rapid.Uint64Range(0, 1<<62).Draw(t, "used-any")
	}
	c.Mult = rapid.SampledFrom([]string{"0", "0.5", "0.5", "1", "0.000000000000000001", "0.999999999999999999", "0.333333333333333333", "0.75"}).Draw(t, "mult")
	return c
}

func runC17Gas(st *ev.Stats, c C17GasCase) string {
	c17Setup()
	st.Eval()
	fail := func(key, what string) string { return st.Discrepancy(key, what, c) }
	k := c17Node.App.FeeMarketKeeper
	ctx, _ := c17Node.Ctx().CacheContext()
	p := feemarkettypes.DefaultParams()
	p.MinGasMultiplier = sdk.MustNewDecFromStr(c.Mult)
	must(k.SetParams(ctx, p))
	gm := sdk.NewInfiniteGasMeter()
	gm.ConsumeGas(c.Used, "used")
	ctx = ctx.WithBlockGasMeter(gm)
	k.SetTransientBlockGasWanted(ctx, c.Wanted)
	k.SetBlockGasWanted(ctx, 777777) // the figure of the previous block: EndBlock must overwrite it whatever this block held
	kk := k
	kk.EndBlock(ctx, abciEndBlock())
	got := k.GetBlockGasWanted(ctx)
	// reference: floor(wanted * mult) with mult an 18-decimal fixed point number
	m := sdk.MustNewDecFromStr(c.Mult).BigInt() // mult * 10^18
	w := new(big.Int).Mul(new(big.Int).SetUint64(c.Wanted), m)
	w.Quo(w, new(big.Int).Exp(big.NewInt(10), big.NewInt(18), nil))
	want := w
	if u := new(big.Int).SetUint64(c.Used); u.Cmp(want) > 0 {
		want = u
	}
	if new(big.Int).SetUint64(got).Cmp(want) != 0 {
		return fail("block-gas-figure", fmt.Sprintf("gasWanted %d gasUsed %d mult %s: stored %d, reference max(floor(w*m),u) = %s", c.Wanted, c.Used, c.Mult, got, want))
	}
	if c.Used < c.Wanted && w.Sign() > 0 {
		st.Class("wanted-above-used")
		st.NonTrivial(c)
	}
	return ""
}

func init() {
	replayers["TestC17_BaseFee"] = func(st *ev.Stats, raw json.RawMessage) string {
		var c C17Case
		must(json.Unmarshal(raw, &c))
		return runC17(st, c)
	}
	replayers["TestC17_BlockGas"] = func(st *ev.Stats, raw json.RawMessage) string {
		var c C17GasCase
		must(json.Unmarshal(raw, &c))
		return runC17Gas(st, c)
	}
}

func TestC17_BaseFee(t *testing.T) {
	st := ev.New("C17", "TestC17_BaseFee", "(parent base fee up to 2^100, gas figure around/below/above the target, block gas limit incl. unlimited, elasticity, denominator, min gas price incl. fractional and near the parent); non-trivial = g != T with a non-zero change, or the min-gas-price clamp is hit")
	runCorpus(t, st)
	runRapid(t, st, 20000, 3000000, func(rt *rapid.T) {
		if msg := runC17(st, genC17(rt)); msg != "" {
			rt.Fatalf("%s", msg)
		}
	})
}

func TestC17_BlockGas(t *testing.T) {
	st := ev.New("C17", "TestC17_BlockGas", "(transient gas wanted, block gas used, min gas multiplier) fed to the fee market EndBlock; non-trivial = used < wanted and floor(wanted*mult) > 0")
	runCorpus(t, st)
	runRapid(t, st, 10000, 1000000, func(rt *rapid.T) {
		if msg := runC17Gas(st, genC17Gas(rt)); msg != "" {
			rt.Fatalf("%s", msg)
		}
	})
}
