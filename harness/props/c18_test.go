package props

// C18 — Ethereum transactions survive the Cosmos envelope unchanged.
// Oracle: round trip FromEthereumTx -> BuildTx -> TxEncoder -> TxDecoder -> AsTransaction compared field-wise with
// the original go-ethereum transaction; fee figures recomputed from the original with math/big.

import (
	"bytes"
	"encoding/hex"
	"encoding/json"
	"fmt"
	"math/big"
	"sync"
	"testing"

	"github.com/cosmos/cosmos-sdk/client"
	codectypes "github.com/cosmos/cosmos-sdk/codec/types"
	sdk "github.com/cosmos/cosmos-sdk/types"
	"github.com/ethereum/go-ethereum/common"
	ethtypes "github.com/ethereum/go-ethereum/core/types"
	"github.com/ethereum/go-ethereum/crypto"
	"pgregory.net/rapid"

	"verif/ev"

	"github.com/haqq-network/haqq/app"
	"github.com/haqq-network/haqq/encoding"
	evmtypes "github.com/haqq-network/haqq/x/evm/types"
)

type C18Access struct {
	Addr string   `json:"addr"`
	Keys []string `json:"keys"`
}

type C18Case struct {
	Type     int         `json:"type"` // 0 legacy, 1 access list, 2 dynamic fee
	Key      string      `json:"key"`  // hex private key
	ChainID  string      `json:"chain_id"`
	Nonce    uint64      `json:"nonce"`
	Gas      uint64      `json:"gas"`
	GasPrice string      `json:"gas_price"` // legacy/access list
	Tip      string      `json:"tip"`
	FeeCap   string      `json:"fee_cap"`
	To       string      `json:"to"` // "" = contract creation
	Value    string      `json:"value"`
	Data     string      `json:"data"` // hex
	Access   []C18Access `json:"access"`
	BaseFee  string      `json:"base_fee"`
	Unprot   bool        `json:"unprotected"` // legacy only: homestead-style signature (no chain id)
}

var (
	c18Once sync.Once
	c18Cfg  client.TxConfig
)

func c18Setup() {
	c18Once.Do(func() {
		c18Cfg = encoding.MakeConfig(app.ModuleBasics).TxConfig
	})
}

var max256 = new(big.Int).Sub(new(big.Int).Lsh(big.NewInt(1), 256), big.NewInt(1))

func genAmount256(t *rapid.T, label string) string {
	switch rapid.IntRange(0, 6).Draw(t, label+"-kind") {
	case 0:
		return "0"
	case 1:
		return max256.String()
	case 2:
		return rapid.SampledFrom([]string{"1", "7", "1000000000", "20000000000", "1000000000000000000"}).Draw(t, label+"-c")
	default:
		return genBig(t, label, 256).String()
	}
}

func genC18(t *rapid.T) C18Case {
	c := C18Case{}
	c.Type = rapid.IntRange(0, 2).Draw(t, "type")
	kb := rapid.SliceOfN(rapid.Byte(), 32, 32).Draw(t, "key")
	if _, err := crypto.ToECDSA(kb); err != nil {
		kb = bytes.Repeat([]byte{0x11}, 32)
	}
	c.Key = hex.EncodeToString(kb)
	c.ChainID = rapid.SampledFrom([]string{"11235", "11235", "54211", "1", "9223372036854775807", "18446744073709551615", "115792089237316195423570985008687907853269984665640564039457584007913129639935"}).Draw(t, "chainid")
	c.Nonce = rapid.SampledFrom([]uint64{0, 1, 2, 1 << 32, 1<<64 - 1}).Draw(t, "nonce")
	if rapid.Bool().Draw(t, "nonce-rand") {
		c.Nonce = rapid.Uint64().Draw(t, "nonce-v")
	}
	c.Gas = rapid.SampledFrom([]uint64{0, 1, 21000, 100000, 30000000, 1<<63 - 1, 1 << 63, 1<<64 - 1}).Draw(t, "gas")
	if rapid.IntRange(0, 2).Draw(t, "gas-rand") == 0 {
		c.Gas = rapid.Uint64Range(1, 1<<40).Draw(t, "gas-v")
	}
	c.GasPrice = genAmount256(t, "gasprice")
	c.FeeCap = genAmount256(t, "feecap")
	c.Tip = genAmount256(t, "tip")
	if rapid.IntRange(0, 2).Draw(t, "tip-below") > 0 {
		// tip <= fee cap (required by Validate): tip = feeCap * k/4
		f, _ := new(big.Int).SetString(c.FeeCap, 10)
		k := int64(rapid.IntRange(0, 4).Draw(t, "tip-frac"))
		f.Mul(f, big.NewInt(k))
		f.Quo(f, big.NewInt(4))
		c.Tip = f.String()
	}
	switch rapid.IntRange(0, 9).Draw(t, "create") {
	case 0, 1:
		// contract creation
	case 2:
		// recipients that look special: the zero address, a precompile, the all-ones address
		c.To = rapid.SampledFrom([]string{"0x0000000000000000000000000000000000000000", "0x0000000000000000000000000000000000000001", "0x0000000000000000000000000000000000000800", "0xFFfFfFffFFfffFFfFFfFFFFFffFFFffffFfFFFfF"}).Draw(t, "to-special")
	default:
		c.To = common.BytesToAddress(rapid.SliceOfN(rapid.Byte(), 20, 20).Draw(t, "to")).Hex()
	}
	c.Value = genAmount256(t, "value")
	switch rapid.IntRange(0, 5).Draw(t, "data-kind") {
	case 0:
	case 1:
		c.Data = hex.EncodeToString(rapid.SliceOfN(rapid.Byte(), 65536, 65536).Draw(t, "data-big"))
	default:
		c.Data = hex.EncodeToString(rapid.SliceOfN(rapid.Byte(), 0, 300).Draw(t, "data"))
	}
	if c.Type > 0 {
		n := rapid.SampledFrom([]int{0, 0, 1, 2, 3, 10, 50}).Draw(t, "nacc")
		for i := 0; i < n; i++ {
			a := C18Access{Addr: common.BytesToAddress(rapid.SliceOfN(rapid.Byte(), 20, 20).Draw(t, "acc-addr")).Hex()}
			nk := rapid.IntRange(0, 4).Draw(t, "acc-nkeys")
			for j := 0; j < nk; j++ {
				a.Keys = append(a.Keys, common.BytesToHash(rapid.SliceOfN(rapid.Byte(), 32, 32).Draw(t, "acc-key")).Hex())
			}
			c.Access = append(c.Access, a)
		}
	}
	c.BaseFee = genAmount256(t, "basefee")
	if len(c.BaseFee) > 70 {
		c.BaseFee = c.BaseFee[:60] // base fee + tip must stay representable; the base fee is a chain parameter, not a tx field
	}
	c.Unprot = c.Type == 0 && rapid.IntRange(0, 9).Draw(t, "unprot") == 0
	return c
}

func bigOf(s string) *big.Int {
	v, ok := new(big.Int).SetString(s, 10)
	if !ok {
		panic("bad int " + s)
	}
	return v
}

func runC18(st *ev.Stats, c C18Case) string {
	c18Setup()
	st.Eval()
	fail := func(key, what string) string { return st.Discrepancy(key, what, c) }
	kb, _ := hex.DecodeString(c.Key)
	priv, err := crypto.ToECDSA(kb)
	if err != nil {
		panic(err)
	}
	chainID := bigOf(c.ChainID)
	var to *common.Address
	if c.To != "" {
		a := common.HexToAddress(c.To)
		to = &a
	}
	data, _ := hex.DecodeString(c.Data)
	var al ethtypes.AccessList
	for _, a := range c.Access {
		t := ethtypes.AccessTuple{Address: common.HexToAddress(a.Addr), StorageKeys: []common.Hash{}}
		for _, k := range a.Keys {
			t.StorageKeys = append(t.StorageKeys, common.HexToHash(k))
		}
		al = append(al, t)
	}
	var inner ethtypes.TxData
	kind := []string{"legacy", "access-list", "dynamic-fee"}[c.Type]
	switch c.Type {
	case 0:
		inner = &ethtypes.LegacyTx{Nonce: c.Nonce, GasPrice: bigOf(c.GasPrice), Gas: c.Gas, To: to, Value: bigOf(c.Value), Data: data}
	case 1:
		inner = &ethtypes.AccessListTx{ChainID: chainID, Nonce: c.Nonce, GasPrice: bigOf(c.GasPrice), Gas: c.Gas, To: to, Value: bigOf(c.Value), Data: data, AccessList: al}
	default:
		inner = &ethtypes.DynamicFeeTx{ChainID: chainID, Nonce: c.Nonce, GasTipCap: bigOf(c.Tip), GasFeeCap: bigOf(c.FeeCap), Gas: c.Gas, To: to, Value: bigOf(c.Value), Data: data, AccessList: al}
	}
	var signer ethtypes.Signer = ethtypes.LatestSignerForChainID(chainID)
	if c.Unprot {
		signer = ethtypes.HomesteadSigner{}
	}
	tx, err := ethtypes.SignNewTx(priv, signer, inner)
	if err != nil {
		// e.g. chain id too large for the legacy V encoding: not a well-formed transaction
		st.Class("unsignable")
		return ""
	}
	wantSender, err := ethtypes.Sender(signer, tx)
	if err != nil {
		panic(err)
	}

	msg := &evmtypes.MsgEthereumTx{}
	if err := msg.FromEthereumTx(tx); err != nil {
		return fail("wrap:"+kind, fmt.Sprintf("FromEthereumTx failed for a 256-bit bounded tx: %v", err))
	}
	if msg.Hash != tx.Hash().Hex() {
		return fail("hash:"+kind, fmt.Sprintf("msg.Hash %s != tx hash %s", msg.Hash, tx.Hash().Hex()))
	}
	// reference acceptance predicate from the documented stateless rules: non-zero gas that fits int64, fee cap * gas
	// within 256 bits, tip <= fee cap. A well-formed tx that satisfies it must be accepted (positive control: an
	// envelope that corrupts a field makes the recorded hash disagree and would otherwise hide behind a rejection).
	// the figures derived from the message are stated over all field values: they are compared before the stateless
	// validation has a say, so that a gas limit or an amount the envelope later refuses is still covered
	if d := c18Figures(msg, tx, c, kind, "wrapped"); d != nil {
		return fail(d[0], d[1])
	}
	feeBits := new(big.Int).Mul(tx.GasFeeCap(), new(big.Int).SetUint64(tx.Gas())).BitLen()
	wellFormed := tx.Gas() != 0 && tx.Gas() <= 1<<63-1 && feeBits <= 256 && tx.GasTipCap().Cmp(tx.GasFeeCap()) <= 0
	if err := msg.ValidateBasic(); err != nil {
		if wellFormed {
			return fail("valid-tx-rejected:"+kind, fmt.Sprintf("ValidateBasic rejected a well-formed tx: %v", err))
		}
		// the envelope refuses this tx (zero gas, gas > MaxInt64, fee overflow, tip > cap): nothing to round-trip
		st.Class("rejected-by-validate-basic")
		return ""
	}
	var bz []byte
	var perr string
	func() {
		defer func() {
			if r := recover(); r != nil {
				perr = fmt.Sprint(r)
			}
		}()
		cosmosTx, err := msg.BuildTx(c18Cfg.NewTxBuilder(), "aISLM")
		if err != nil {
			perr = "BuildTx: " + err.Error()
			return
		}
		// envelope figures
		feeTx := cosmosTx.(sdk.FeeTx)
		wantFee := new(big.Int).Mul(tx.GasFeeCap(), new(big.Int).SetUint64(tx.Gas()))
		gotFee := feeTx.GetFee().AmountOf("aISLM").BigInt()
		if gotFee.Cmp(wantFee) != 0 {
			perr = fmt.Sprintf("envelope fee %s != feeCap*gas %s", gotFee, wantFee)
			return
		}
		if feeTx.GetGas() != tx.Gas() {
			perr = fmt.Sprintf("envelope gas %d != %d", feeTx.GetGas(), tx.Gas())
			return
		}
		bz, err = c18Cfg.TxEncoder()(cosmosTx)
		if err != nil {
			perr = "encode: " + err.Error()
		}
	}()
	if perr != "" {
		return fail("build:"+kind, perr)
	}
	dec, err := c18Cfg.TxDecoder()(bz)
	if err != nil {
		return fail("decode:"+kind, err.Error())
	}
	msgs := dec.GetMsgs()
	if len(msgs) != 1 {
		return fail("decode:"+kind, fmt.Sprintf("%d messages", len(msgs)))
	}
	m2, ok := msgs[0].(*evmtypes.MsgEthereumTx)
	if !ok {
		return fail("decode:"+kind, fmt.Sprintf("message type %T", msgs[0]))
	}
	tx2 := m2.AsTransaction()
	if tx2 == nil {
		return fail("unwrap:"+kind, "AsTransaction returned nil")
	}
	if m2.Hash != tx.Hash().Hex() {
		return fail("hash:"+kind, fmt.Sprintf("decoded msg.Hash %s != %s", m2.Hash, tx.Hash().Hex()))
	}
	if tx2.Hash() != tx.Hash() {
		return fail("hash:"+kind, fmt.Sprintf("decoded tx hash %s != %s", tx2.Hash(), tx.Hash()))
	}
	gotSender, err := ethtypes.Sender(signer, tx2)
	if err != nil || gotSender != wantSender {
		return fail("sender:"+kind, fmt.Sprintf("sender %s (%v) != %s", gotSender, err, wantSender))
	}
	if !c.Unprot {
		if s, err := m2.GetSender(chainID); err != nil || s != wantSender {
			return fail("sender:"+kind, fmt.Sprintf("GetSender %s (%v) != %s", s, err, wantSender))
		}
	}
	// field-wise
	b1, _ := tx.MarshalBinary()
	b2, _ := tx2.MarshalBinary()
	type f struct {
		name string
		a, b any
	}
	v1, r1, s1 := tx.RawSignatureValues()
	v2, r2, s2 := tx2.RawSignatureValues()
	toS := func(a *common.Address) string {
		if a == nil {
			return "<create>"
		}
		return a.Hex()
	}
	for _, x := range []f{
		{"type", tx.Type(), tx2.Type()}, {"nonce", tx.Nonce(), tx2.Nonce()}, {"gas", tx.Gas(), tx2.Gas()},
		{"gasPrice", tx.GasPrice().String(), tx2.GasPrice().String()}, {"tip", tx.GasTipCap().String(), tx2.GasTipCap().String()},
		{"feeCap", tx.GasFeeCap().String(), tx2.GasFeeCap().String()}, {"to", toS(tx.To()), toS(tx2.To())},
		{"value", tx.Value().String(), tx2.Value().String()}, {"data", hex.EncodeToString(tx.Data()), hex.EncodeToString(tx2.Data())},
		{"chainId", tx.ChainId().String(), tx2.ChainId().String()}, {"accessList", fmt.Sprint(tx.AccessList()), fmt.Sprint(tx2.AccessList())},
		{"v", v1.String(), v2.String()}, {"r", r1.String(), r2.String()}, {"s", s1.String(), s2.String()},
		{"binary", hex.EncodeToString(b1), hex.EncodeToString(b2)}, {"protected", tx.Protected(), tx2.Protected()},
	} {
		if fmt.Sprint(x.a) != fmt.Sprint(x.b) {
			return fail("field:"+kind+":"+x.name, fmt.Sprintf("%s: original %v, after round trip %v", x.name, trunc(fmt.Sprint(x.a)), trunc(fmt.Sprint(x.b))))
		}
	}
	if d := c18Figures(m2, tx, c, kind, "decoded"); d != nil {
		return fail(d[0], d[1])
	}
	// the sender is what the signature says, not what the envelope's From field claims (that field is not signed), and
	// not what an earlier use of the same message object recovered
	if !c.Unprot {
		other := common.HexToAddress("0x00000000000000000000000000000000000c0ffe")
		m3 := *m2
		m3.From = other.Hex()
		if s, err := m3.GetSender(chainID); err != nil || s != wantSender {
			return fail("sender:"+kind+":claimed-from", fmt.Sprintf("message whose From field claims %s: GetSender = %s (%v), signature recovers %s", other.Hex(), s, err, wantSender))
		}
		if bz3, err := c18ReencodeWithFrom(m2, other.Hex()); err == nil {
			if d3, err := c18Cfg.TxDecoder()(bz3); err == nil && len(d3.GetMsgs()) == 1 {
				if m4, ok := d3.GetMsgs()[0].(*evmtypes.MsgEthereumTx); ok {
					if s, err := m4.GetSender(chainID); err != nil || s != wantSender {
						return fail("sender:"+kind+":claimed-from", fmt.Sprintf("decoded message whose From field claims %s: GetSender = %s (%v), signature recovers %s", other.Hex(), s, err, wantSender))
					}
				}
			}
		}
		// the same message object re-used for a transaction of another key
		kb2 := bytes.Repeat([]byte{0x22}, 32)
		if c.Key == hex.EncodeToString(kb2) {
			kb2[0] = 0x23
		}
		priv2, _ := crypto.ToECDSA(kb2)
		if tx2nd, err := ethtypes.SignNewTx(priv2, signer, inner); err == nil {
			want2, _ := ethtypes.Sender(signer, tx2nd)
			m5 := &evmtypes.MsgEthereumTx{}
			if m5.FromEthereumTx(tx) == nil {
				_, _ = m5.GetSender(chainID)
				if m5.FromEthereumTx(tx2nd) == nil {
					if s, err := m5.GetSender(chainID); err != nil || s != want2 {
						return fail("sender:"+kind+":reused-message", fmt.Sprintf("message object re-used for a transaction signed by %s: GetSender = %s (%v)", want2, s, err))
					}
				}
			}
		}
	}
	st.Class("round-tripped:" + kind)
	if c.Type > 0 && (len(c.Access) > 0 || c.To == "") {
		if len(c.Data) > 2000 {
			cc := c
			cc.Data = cc.Data[:64] + "..."
			st.NonTrivial(cc)
		} else {
			st.NonTrivial(c)
		}
	}
	return ""
}

func trunc(s string) string {
	if len(s) > 200 {
		return s[:200] + "..."
	}
	return s
}

func init() {
	replayers["TestC18_RoundTrip"] = func(st *ev.Stats, raw json.RawMessage) string {
		var c C18Case
		must(json.Unmarshal(raw, &c))
		return runC18(st, c)
	}
}

func TestC18_RoundTrip(t *testing.T) {
	st := ev.New("C18", "TestC18_RoundTrip", "signed legacy/access-list/dynamic-fee tx with generated fields (0 / 2^256-1 / random amounts, empty..64KiB data, 0..50 access tuples, creation, several chain ids, random keys) that the envelope accepts; non-trivial = typed tx (1 or 2) with a non-empty access list or contract creation that completed the round trip")
	runCorpus(t, st)
	runRapid(t, st, 12000, 600000, func(rt *rapid.T) {
		if msg := runC18(st, genC18(rt)); msg != "" {
			rt.Fatalf("%s", msg)
		}
	})
}

// c18Figures compares everything the message derives from its transaction data (fee, cost, effective price, gas, chain
// id, signer) with values recomputed from the original go-ethereum transaction. Returns {key, what} or nil.
func c18Figures(m *evmtypes.MsgEthereumTx, tx *ethtypes.Transaction, c C18Case, kind, stage string) (out []string) {
	defer func() {
		if r := recover(); r != nil {
			out = []string{"figure-panic:" + kind, fmt.Sprintf("%s message: deriving figures panicked: %v", stage, r)}
		}
	}()
	td, err := evmtypes.UnpackTxData(m.Data)
	if err != nil {
		return []string{"unpack:" + kind, err.Error()}
	}
	gas := new(big.Int).SetUint64(tx.Gas())
	baseFee := bigOf(c.BaseFee)
	wantFee := new(big.Int).Mul(tx.GasFeeCap(), gas)
	wantCost := new(big.Int).Add(wantFee, tx.Value())
	eff := new(big.Int).Set(tx.GasPrice())
	if c.Type == 2 {
		eff = new(big.Int).Add(tx.GasTipCap(), baseFee)
		if eff.Cmp(tx.GasFeeCap()) > 0 {
			eff = new(big.Int).Set(tx.GasFeeCap())
		}
	}
	wantEffFee := new(big.Int).Mul(eff, gas)
	wantEffCost := new(big.Int).Add(wantEffFee, tx.Value())
	type f struct {
		name string
		a, b any
	}
	chk := []f{
		{"Fee", td.Fee().String(), wantFee.String()}, {"Cost", td.Cost().String(), wantCost.String()}, {"geth-Cost", tx.Cost().String(), wantCost.String()},
		{"EffectiveGasPrice", td.EffectiveGasPrice(baseFee).String(), eff.String()}, {"EffectiveFee", td.EffectiveFee(baseFee).String(), wantEffFee.String()},
		{"EffectiveCost", td.EffectiveCost(baseFee).String(), wantEffCost.String()},
		{"msg.GetFee", m.GetFee().String(), wantFee.String()}, {"msg.GetEffectiveFee", m.GetEffectiveFee(baseFee).String(), wantEffFee.String()},
		{"msg.GetGas", m.GetGas(), tx.Gas()}, {"GetGas", td.GetGas(), tx.Gas()}, {"GetNonce", td.GetNonce(), tx.Nonce()},
		{"GetValue", td.GetValue().String(), tx.Value().String()},
		{"GetGasPrice", td.GetGasPrice().String(), tx.GasPrice().String()},
		{"GetGasTipCap", td.GetGasTipCap().String(), tx.GasTipCap().String()}, {"GetGasFeeCap", td.GetGasFeeCap().String(), tx.GasFeeCap().String()},
	}
	// the chain id the message derives for itself is the one the transaction was signed for (zero for a pre-EIP-155
	// signature), and the sender recovered with it is the signer
	chk = append(chk, f{"GetChainID", bigStr(td.GetChainID()), tx.ChainId().String()})
	for _, x := range chk {
		if fmt.Sprint(x.a) != fmt.Sprint(x.b) {
			return []string{"figure:" + kind + ":" + x.name, fmt.Sprintf("%s message: %s = %v, recomputed from the original %v", stage, x.name, x.a, x.b)}
		}
	}
	if !c.Unprot {
		var signer ethtypes.Signer = ethtypes.LatestSignerForChainID(tx.ChainId())
		want, err := ethtypes.Sender(signer, tx)
		if err != nil {
			panic(err)
		}
		s, err := m.GetSender(td.GetChainID())
		if err != nil || s != want {
			return []string{"sender:" + kind, fmt.Sprintf("%s message: GetSender(derived chain id %s) = %s (%v), signer %s", stage, bigStr(td.GetChainID()), s, err, want)}
		}
		sg := m.GetSigners()
		if len(sg) != 1 || !bytes.Equal(sg[0], want.Bytes()) {
			return []string{"sender:" + kind, fmt.Sprintf("%s message: GetSigners = %v, signer %s", stage, sg, want)}
		}
	}
	return nil
}

func bigStr(b *big.Int) string {
	if b == nil {
		return "0"
	}
	return b.String()
}

// c18ReencodeWithFrom puts the message on the wire with a From field of the caller's choosing (plain SetMsgs; BuildTx
// would blank it).
func c18ReencodeWithFrom(m *evmtypes.MsgEthereumTx, from string) ([]byte, error) {
	mm := *m
	mm.From = from
	b := c18Cfg.NewTxBuilder()
	if err := b.SetMsgs(&mm); err != nil {
		return nil, err
	}
	if eb, ok := b.(interface{ SetExtensionOptions(...*codectypes.Any) }); ok {
		opt, err := codectypes.NewAnyWithValue(&evmtypes.ExtensionOptionsEthereumTx{})
		if err != nil {
			return nil, err
		}
		eb.SetExtensionOptions(opt)
	}
	return c18Cfg.TxEncoder()(b.GetTx())
}
