package props

import (
	"encoding/json"
	"flag"
	"fmt"
	"math/big"
	"os"
	"path/filepath"
	"reflect"
	"sort"
	"strconv"
	"strings"
	"testing"

	abci "github.com/cometbft/cometbft/abci/types"
	"pgregory.net/rapid"

	"verif/ev"
)

// runRapid runs prop with a case budget that depends on the tier, split over the shards started by bin/check.
// All randomness comes from rapid, seeded from (VERIF_SEED, property, test, shard).
func runRapid(t *testing.T, st *ev.Stats, quickN, thoroughN int, prop func(*rapid.T)) {
	t.Helper()
	n := quickN
	if ev.Thorough() {
		n = thoroughN
	}
	if v := os.Getenv("VERIF_CHECKS_" + st.Test); v != "" {
		n, _ = strconv.Atoi(v)
	}
	_, shards := ev.Shard()
	per := (n + shards - 1) / shards
	if per < 1 {
		per = 1
	}
	must(flag.Set("rapid.checks", strconv.Itoa(per)))
	must(flag.Set("rapid.seed", strconv.FormatUint(ev.DeriveSeed(st.Property, st.Test), 10)))
	must(flag.Set("rapid.nofailfile", "true"))
	if os.Getenv("VERIF_SHRINKTIME") != "" {
		must(flag.Set("rapid.shrinktime", os.Getenv("VERIF_SHRINKTIME")))
	} else {
		must(flag.Set("rapid.shrinktime", "20s"))
	}
	defer st.Flush()
	rapid.Check(t, prop)
}

func must(err error) {
	if err != nil {
		panic(err)
	}
}

// corpusFiles lists replays/<ID>/seed-corpus/<test>*.json in a fixed order.
func corpusFiles(property, test string) []string {
	dir := filepath.Join(ev.Root(), "replays", property, "seed-corpus")
	ents, err := os.ReadDir(dir)
	if err != nil {
		return nil
	}
	var out []string
	for _, e := range ents {
		if strings.HasPrefix(e.Name(), test+".") && strings.HasSuffix(e.Name(), ".json") {
			out = append(out, filepath.Join(dir, e.Name()))
		}
	}
	sort.Strings(out)
	return out
}

type replayDoc struct {
	Property string          `json:"property"`
	Test     string          `json:"test"`
	Key      string          `json:"key"`
	What     string          `json:"what"`
	Case     json.RawMessage `json:"case"`
}

func loadReplay(path string) replayDoc {
	b, err := os.ReadFile(path)
	if err != nil {
		panic(err)
	}
	var d replayDoc
	if err := json.Unmarshal(b, &d); err != nil {
		panic(fmt.Sprintf("%s: %v", path, err))
	}
	return d
}

// replayers maps a test name to a function that runs one explicit case (no rapid involved) and returns a
// violation message ("" = held).
var replayers = map[string]func(st *ev.Stats, raw json.RawMessage) string{}

// runCorpus replays the seed corpus of a test through its replayer (only on shard 0, so counts are not multiplied).
func runCorpus(t *testing.T, st *ev.Stats) {
	t.Helper()
	if i, _ := ev.Shard(); i != 0 {
		return
	}
	fn := replayers[st.Test]
	for _, f := range corpusFiles(st.Property, st.Test) {
		d := loadReplay(f)
		st.Class("seed-corpus")
		if msg := fn(st, d.Case); msg != "" {
			st.Flush()
			t.Fatalf("seed corpus %s: %s", f, msg)
		}
	}
}

// TestReplay re-executes the case stored in $VERIF_REPLAY without rapid.
// replayT: the running *testing.T for runners that drive third-party helpers needing one (the IBC coordinator).
var replayT *testing.T

func TestReplay(t *testing.T) {
	replayT = t
	path := os.Getenv("VERIF_REPLAY")
	if path == "" {
		t.Skip("VERIF_REPLAY not set")
	}
	d := loadReplay(path)
	fn, ok := replayers[d.Test]
	if !ok {
		t.Fatalf("no replayer for test %q", d.Test)
	}
	st := ev.New(d.Property, d.Test, "replay of "+path)
	defer st.Flush()
	if msg := fn(st, d.Case); msg != "" {
		t.Fatalf("%s", msg)
	}
}

func abciEndBlock() abci.RequestEndBlock { return abci.RequestEndBlock{} }

func containsFold(s, sub string) bool {
	return strings.Contains(strings.ToLower(s), strings.ToLower(sub))
}

// reflectField reads a *big.Int field of an anonymous ABI-decoded struct.
func reflectField(v interface{}, name string) *big.Int {
	rv := reflect.ValueOf(v)
	if rv.Kind() == reflect.Ptr {
		rv = rv.Elem()
	}
	f := rv.FieldByName(name)
	if !f.IsValid() {
		return new(big.Int)
	}
	if b, ok := f.Interface().(*big.Int); ok {
		return b
	}
	return new(big.Int)
}
