package props

// Block-history generator and executor shared by C01, C14, C15, C19, C20.
//
// A History is plain data: per block the time step, proposer, absent validators, optional double-sign evidence and a
// list of transaction intents. Intents carry indices that are resolved against the chain state deterministically
// (idx mod len), so a history is one shrinkable value and one replay file. The executor builds the transaction
// bytes while running on a node; the bytes can be fed verbatim to other replicas.

import (
	"fmt"
	upgradetypes "github.com/cosmos/cosmos-sdk/x/upgrade/types"
	"math/big"
	"os"
	"sort"
	"strings"
	"time"

	sdkmath "cosmossdk.io/math"
	abci "github.com/cometbft/cometbft/abci/types"
	"github.com/cosmos/cosmos-sdk/codec"
	sdk "github.com/cosmos/cosmos-sdk/types"
	authtypes "github.com/cosmos/cosmos-sdk/x/auth/types"
	sdkvesting "github.com/cosmos/cosmos-sdk/x/auth/vesting/types"
	banktypes "github.com/cosmos/cosmos-sdk/x/bank/types"
	distrtypes "github.com/cosmos/cosmos-sdk/x/distribution/types"
	govtypes "github.com/cosmos/cosmos-sdk/x/gov/types"
	govv1 "github.com/cosmos/cosmos-sdk/x/gov/types/v1"
	slashingtypes "github.com/cosmos/cosmos-sdk/x/slashing/types"
	stakingtypes "github.com/cosmos/cosmos-sdk/x/staking/types"
	"github.com/ethereum/go-ethereum/accounts/abi"
	"github.com/ethereum/go-ethereum/common"
	ethcrypto "github.com/ethereum/go-ethereum/crypto"
	"pgregory.net/rapid"

	"verif/chain"
	"verif/evmasm"
	"verif/pabi"
	"verif/txb"

	"github.com/haqq-network/haqq/contracts"
	haqqtypes "github.com/haqq-network/haqq/types"
	coinomicstypes "github.com/haqq-network/haqq/x/coinomics/types"
	epochstypes "github.com/haqq-network/haqq/x/epochs/types"
	erc20types "github.com/haqq-network/haqq/x/erc20/types"
	evmtypes "github.com/haqq-network/haqq/x/evm/types"
	feemarkettypes "github.com/haqq-network/haqq/x/feemarket/types"
	lvtypes "github.com/haqq-network/haqq/x/liquidvesting/types"
	ucdaotypes "github.com/haqq-network/haqq/x/ucdao/types"
	vestingtypes "github.com/haqq-network/haqq/x/vesting/types"
)

type HTx struct {
	K   string `json:"k"`
	A   int    `json:"a,omitempty"`
	B   int    `json:"b,omitempty"`
	V   int    `json:"v,omitempty"`
	N   int    `json:"n,omitempty"`
	Amt string `json:"amt,omitempty"` // in units of 10^15 aISLM (milli-ISLM), decimal
}

type HBlock struct {
	Dt         int64 `json:"dt"` // seconds since the previous block
	Proposer   int   `json:"proposer"`
	Absent     []int `json:"absent,omitempty"`
	DoubleSign int   `json:"double_sign,omitempty"` // 1-based validator index, 0 = none
	Gov        []HTx `json:"gov,omitempty"`         // governance-only set-up applied through the keeper at the start of the block (stands for a passed proposal)
	Txs        []HTx `json:"txs,omitempty"`
}

// GovOp is a resolved governance operation (concrete addresses), applied identically on every replica.
type GovOp struct {
	K      string   `json:"k"` // register-erc20 | toggle-pair | set-precompiles
	Addr   string   `json:"addr,omitempty"`
	Active []string `json:"active,omitempty"`
	Height int64    `json:"height,omitempty"`
}

// hUpgradeName: the latest software upgrade the application registers a handler for.
const hUpgradeName = "v1.8.2"

// BlockFeed is what replica A hands to the other replicas for one block.
type BlockFeed struct {
	Gov []GovOp  `json:"gov"`
	Txs [][]byte `json:"txs"`
}

type History struct {
	NumVals   int  `json:"num_vals"`
	Coinomics bool `json:"coinomics"`
	NoBaseFee bool `json:"no_base_fee,omitempty"` // fee market without a base fee (a min gas price instead)
	LateForks bool `json:"late_forks,omitempty"`  // genesis leaves London and the later hard forks unscheduled (governance schedules them)
	// FutureEpoch: genesis registers an additional epoch that starts a little after genesis and ticks every 40 s
	FutureEpoch bool `json:"future_epoch,omitempty"`
	// Start: genesis time (RFC 3339); empty = the harness default. Drawn near year ends and the leap day, where calendar
	// arithmetic (coinomics' year length, epochs) is most sensitive
	Start string `json:"start,omitempty"`
	// ModuleAccts: the genesis lists the module accounts with their permissions, like the export of a running network
	// does (otherwise they are created on first use)
	ModuleAccts bool `json:"module_accts,omitempty"`
	// FarEpoch: genesis registers an epoch that starts 45 days after genesis (it is usually still pending at the end)
	FarEpoch bool `json:"far_epoch,omitempty"`
	// CapNear (with Coinomics): the maximum supply is only 2*10^13 aISLM above the genesis supply, so minting reaches
	// the cap within the history and switches itself off
	CapNear bool `json:"cap_near,omitempty"`
	// TinyBaseFee: the fee market starts with a base fee of 3 and a gas target far below any real block (elasticity
	// 1000 on a finite block gas limit), so the base fee moves by the minimum step of one per block
	TinyBaseFee bool     `json:"tiny_base_fee,omitempty"`
	Blocks      []HBlock `json:"blocks"`
}

const hUsers = 5

var hKinds = []string{
	"send", "send", "delegate", "delegate", "delegate", "undelegate", "undelegate", "redelegate", "withdraw", "setwithdraw",
	"gov-submit", "gov-deposit", "gov-vote", "vest-create", "vest-create", "vest-clawback", "lv-liquidate", "lv-redeem",
	"dao-fund", "dao-transfer", "eth-send", "eth-create", "eth-call", "eth-call", "eth-delegate", "eth-withdraw", "eth-prog",
	"bad-nonce", "low-fee", "unjail", "send-module", "multisend-new", "delegate-all", "eth-fanout", "eth-approve-toucher", "eth-toucher", "eth-blockhash", "erc20-deploy", "erc20-mint", "erc20-transfer", "erc20-transfer", "erc20-convert",
}

var hGovKinds = []string{"register-erc20", "register-erc20", "toggle-pair", "precompile-off", "precompile-swap", "erc20-switch", "register-coin", "upgrade-plan", "fork-schedule", "coinomics-switch"}

// hModuleTargets: module accounts a user might (try to) send coins to.
var hModuleTargets = []string{"distribution", "bonded_tokens_pool", "not_bonded_tokens_pool", "fee_collector", "gov", "erc20", "coinomics"}

// hModulePerms: the module accounts of the network and the permissions they were created with (what an exported
// genesis of a running network contains)
var hModulePerms = []struct {
	Name  string
	Perms []string
}{
	{"fee_collector", nil}, {"distribution", nil}, {"bonded_tokens_pool", []string{"burner", "staking"}}, {"not_bonded_tokens_pool", []string{"burner", "staking"}},
	{"gov", []string{"burner"}}, {"transfer", []string{"minter", "burner"}}, {"evm", []string{"minter", "burner"}}, {"erc20", []string{"minter", "burner"}},
	{"interchainaccounts", nil}, {"coinomics", []string{"minter"}}, {"vesting", nil}, {"liquidvesting", []string{"minter", "burner"}}, {"ucdao", nil},
}

// hStarts: genesis times; half of the histories start shortly before a year end (leap -> common, common -> leap) or the
// leap day, so that the calendar date of a block differs between time zones
var hStarts = []string{"", "", "", "2024-12-31T12:00:00Z", "2024-12-31T23:59:30Z", "2023-12-31T13:00:00Z", "2024-02-28T23:59:00Z", "2027-12-31T23:00:00Z"}

var hDts = []int64{1, 1, 2, 5, 5, 6, 30, 61, 61, 130, 3600, 86400, 400 * 86400}

func genHTx(t *rapid.T, kinds []string) HTx {
	x := HTx{K: rapid.SampledFrom(kinds).Draw(t, "k")}
	x.A = rapid.IntRange(0, hUsers-1).Draw(t, "a")
	x.B = rapid.IntRange(0, hUsers-1).Draw(t, "b")
	x.V = rapid.IntRange(0, 3).Draw(t, "v")
	x.N = rapid.IntRange(0, 7).Draw(t, "n")
	x.Amt = rapid.SampledFrom([]string{"1", "10", "1000", "2500", "1000000", "2000000", "5000000", "50000000"}).Draw(t, "amt")
	return x
}

func genHistory(t *rapid.T, minBlocks, maxBlocks int, kinds []string) History {
	h := History{NumVals: rapid.IntRange(2, 4).Draw(t, "nvals"), Coinomics: rapid.Bool().Draw(t, "coinomics"), NoBaseFee: rapid.IntRange(0, 3).Draw(t, "nobasefee") == 0,
		LateForks: rapid.IntRange(0, 5).Draw(t, "lateforks") == 0, FutureEpoch: rapid.IntRange(0, 2).Draw(t, "futureepoch") == 0}
	h.Start = rapid.SampledFrom(hStarts).Draw(t, "start")
	h.ModuleAccts = rapid.Bool().Draw(t, "module-accts")
	h.FarEpoch = rapid.IntRange(0, 2).Draw(t, "far-epoch") == 0
	h.CapNear = h.Coinomics && rapid.IntRange(0, 2).Draw(t, "cap-near") == 0
	h.TinyBaseFee = !h.NoBaseFee && !h.LateForks && rapid.IntRange(0, 2).Draw(t, "tiny-base-fee") == 0
	nb := rapid.IntRange(minBlocks, maxBlocks).Draw(t, "nblocks")
	for i := 0; i < nb; i++ {
		b := HBlock{Dt: rapid.SampledFrom(hDts).Draw(t, "dt"), Proposer: rapid.IntRange(0, 3).Draw(t, "proposer")}
		if rapid.IntRange(0, 2).Draw(t, "absent") == 0 {
			b.Absent = []int{rapid.IntRange(0, 3).Draw(t, "absent-v")}
		}
		if rapid.IntRange(0, 11).Draw(t, "ds") == 0 {
			b.DoubleSign = 1 + rapid.IntRange(0, 3).Draw(t, "ds-v")
		}
		ntx := rapid.IntRange(0, 6).Draw(t, "ntx")
		for j := 0; j < ntx; j++ {
			b.Txs = append(b.Txs, genHTx(t, kinds))
		}
		if rapid.IntRange(0, 4).Draw(t, "gov") == 0 {
			g := genHTx(t, hGovKinds)
			b.Gov = append(b.Gov, g)
		}
		h.Blocks = append(h.Blocks, b)
	}
	// scenario seeds: chains of intents that only make sense in order (the generator would rarely line them up)
	has := func(k string) bool {
		for _, x := range kinds {
			if x == k {
				return true
			}
		}
		return false
	}
	if has("lv-liquidate") && nb >= 3 && rapid.IntRange(0, 1).Draw(t, "liquid-scenario") == 0 {
		i := rapid.IntRange(0, nb-3).Draw(t, "liquid-at")
		a := rapid.IntRange(0, hUsers-1).Draw(t, "liquid-a")
		slot := rapid.IntRange(0, 2).Draw(t, "liquid-slot") * 2 % 3
		h.Blocks[i].Dt = rapid.SampledFrom([]int64{1, 5, 30}).Draw(t, "liquid-dt0")
		h.Blocks[i+1].Dt = rapid.SampledFrom([]int64{1, 5, 30, 61}).Draw(t, "liquid-dt1")
		h.Blocks[i].Txs = append([]HTx{{K: "vest-create", A: a, N: slot * 2, V: rapid.IntRange(0, 2).Draw(t, "liquid-v"), Amt: rapid.SampledFrom([]string{"2000000", "5000000", "50000000"}).Draw(t, "liquid-amt")}}, h.Blocks[i].Txs...)
		h.Blocks[i+1].Txs = append([]HTx{{K: "lv-liquidate", A: (a + 1) % hUsers, N: slot * 2, V: rapid.IntRange(0, 3).Draw(t, "liquid-frac")}}, h.Blocks[i+1].Txs...)
		if has("dao-fund") && rapid.Bool().Draw(t, "liquid-dao") {
			// the holder puts (part of) the liquid token into the DAO: a DAO balance without any native coin
			h.Blocks[i+1].Txs = append(h.Blocks[i+1].Txs, HTx{K: "dao-fund", A: (a + 1) % hUsers, V: rapid.SampledFrom([]int{0, 0, 1}).Draw(t, "liquid-dao-v"), Amt: "1000"})
		}
		h.Blocks[i+2].Txs = append([]HTx{{K: "lv-redeem", A: (a + 1) % hUsers, B: rapid.IntRange(0, hUsers-1).Draw(t, "liquid-to"), N: 0, V: rapid.IntRange(0, 2).Draw(t, "liquid-rfrac")}}, h.Blocks[i+2].Txs...)
		if rapid.IntRange(0, 3).Draw(t, "liquid-expired") == 0 {
			// the lockup runs out before the redeem, and the redeemer names a module account as the payee
			h.Blocks[i+2].Dt = 400 * 86400
			h.Blocks[i+2].Txs[0].N = 7
			h.Blocks[i+2].Txs[0].V = rapid.IntRange(0, 2).Draw(t, "liquid-expired-v") * 3
		} else if rapid.IntRange(0, 2).Draw(t, "liquid-counter") == 0 {
			// two liquidations (two liquid denominations), then the younger one is redeemed completely: its record goes,
			// the denomination counter stays
			h.Blocks[i+1].Txs[0].V = 1
			h.Blocks[i+1].Txs = append([]HTx{h.Blocks[i+1].Txs[0], {K: "lv-liquidate", A: (a + 1) % hUsers, N: slot * 2, V: 0}}, h.Blocks[i+1].Txs[1:]...)
			h.Blocks[i+2].Txs[0] = HTx{K: "lv-redeem", A: (a + 1) % hUsers, B: rapid.IntRange(0, hUsers-1).Draw(t, "liquid-to2"), N: 1, V: 0}
		}
	}
	if has("erc20-deploy") && nb >= 4 && rapid.IntRange(0, 2).Draw(t, "erc20-scenario") == 0 {
		// a token that is used before it is registered, then registered, then sent to the module address
		i := rapid.IntRange(0, nb-4).Draw(t, "erc20-at")
		a := rapid.IntRange(0, hUsers-1).Draw(t, "erc20-a")
		h.Blocks[i].Txs = append([]HTx{{K: "erc20-deploy", A: a}}, h.Blocks[i].Txs...)
		h.Blocks[i+1].Txs = append([]HTx{{K: "erc20-mint", A: a, B: a, Amt: "5000"}, {K: "erc20-transfer", A: a, B: (a + 1) % hUsers, V: 0, Amt: "7"}}, h.Blocks[i+1].Txs...)
		h.Blocks[i+2].Gov = append(h.Blocks[i+2].Gov, HTx{K: "register-erc20"})
		h.Blocks[i+3].Txs = append([]HTx{{K: "erc20-transfer", A: a, V: 1, Amt: "100"}, {K: "erc20-convert", A: a, N: 1, Amt: "30"}}, h.Blocks[i+3].Txs...)
	}
	if has("eth-delegate") && nb >= 4 && rapid.IntRange(0, 2).Draw(t, "precompile-scenario") == 0 {
		// EVM activity, then the set of active precompiles changes twice with the same size, then a swapped one is called
		i := rapid.IntRange(0, nb-4).Draw(t, "pc-at")
		a := rapid.IntRange(0, hUsers-1).Draw(t, "pc-a")
		h.Blocks[i].Txs = append([]HTx{{K: "eth-send", A: a, B: (a + 1) % hUsers, Amt: "1", N: 1}}, h.Blocks[i].Txs...)
		h.Blocks[i+1].Gov = append(h.Blocks[i+1].Gov, HTx{K: "precompile-off", N: 2})
		h.Blocks[i+2].Gov = append(h.Blocks[i+2].Gov, HTx{K: "precompile-swap", N: rapid.IntRange(0, 4).Draw(t, "pc-swap")})
		h.Blocks[i+3].Txs = append([]HTx{{K: "eth-delegate", A: a, V: 0, Amt: "1000", N: 1}, {K: "eth-withdraw", A: a, V: 0, N: 1}}, h.Blocks[i+3].Txs...)
	}
	if has("delegate-all") && nb >= 3 && rapid.IntRange(0, 3).Draw(t, "rewards-fee-scenario") == 0 {
		// an account stakes all it has with several validators; others pay fees for a while; then its transactions can
		// only pay their fee out of the staking rewards (the ante handler claims just enough of them)
		i := rapid.IntRange(0, nb-3).Draw(t, "rf-at")
		a := rapid.IntRange(0, hUsers-1).Draw(t, "rf-a")
		h.Blocks[i].Txs = append([]HTx{{K: "delegate-all", A: a}}, h.Blocks[i].Txs...)
		for k := 0; k < 3; k++ {
			h.Blocks[i+1].Txs = append(h.Blocks[i+1].Txs, HTx{K: "send", A: (a + 1 + k%2) % hUsers, B: a, Amt: "1"})
		}
		h.Blocks[i+2].Txs = append([]HTx{{K: "send", A: a, B: (a + 1) % hUsers, Amt: "1"}, {K: "eth-send", A: a, B: (a + 2) % hUsers, Amt: "1", N: 1}}, h.Blocks[i+2].Txs...)
	}
	if has("send-module") && nb >= 2 && rapid.IntRange(0, 3).Draw(t, "switch-scenario") == 0 {
		// a module-wide switch is turned off by governance, then users try paths that consult it
		i := rapid.IntRange(0, nb-2).Draw(t, "switch-at")
		h.Blocks[i].Gov = append(h.Blocks[i].Gov, HTx{K: "erc20-switch"})
		a := rapid.IntRange(0, hUsers-1).Draw(t, "switch-a")
		for k := 0; k < 2; k++ {
			h.Blocks[i+1].Txs = append(h.Blocks[i+1].Txs, HTx{K: "send-module", A: a, N: rapid.IntRange(0, 6).Draw(t, "switch-target"), Amt: "1000"})
		}
	}
	if has("eth-create") && nb >= 3 && (rapid.IntRange(0, 3).Draw(t, "fork-scenario") == 0 || h.LateForks) {
		// EVM activity, then governance re-schedules a hard fork a few blocks ahead, then a transaction whose outcome
		// depends on the fork rules; or: a module-owned token pair, then the software upgrade, then EVM activity
		i := rapid.IntRange(0, nb-3).Draw(t, "fork-at")
		a := rapid.IntRange(0, hUsers-1).Draw(t, "fork-a")
		h.Blocks[i].Txs = append([]HTx{{K: "eth-send", A: a, B: (a + 1) % hUsers, Amt: "1", N: 0}}, h.Blocks[i].Txs...)
		if h.LateForks {
			h.Blocks[i+1].Gov = append(h.Blocks[i+1].Gov, HTx{K: "fork-schedule", N: rapid.IntRange(0, 2).Draw(t, "fork-n")})
			h.Blocks[i+2].Txs = append([]HTx{{K: "eth-create", A: a, N: 3}, {K: "eth-create", A: (a + 1) % hUsers, N: 0}}, h.Blocks[i+2].Txs...)
			h.Blocks[i+1].Dt, h.Blocks[i+2].Dt = 5, 5
		} else {
			h.Blocks[i].Gov = append(h.Blocks[i].Gov, HTx{K: "register-coin"})
			h.Blocks[i+1].Gov = append(h.Blocks[i+1].Gov, HTx{K: "upgrade-plan"})
			h.Blocks[i+2].Txs = append(h.Blocks[i+2].Txs, HTx{K: "eth-send", A: a, B: (a + 2) % hUsers, Amt: "1", N: 1})
			if i+3 < nb {
				h.Blocks[i+3].Txs = append(h.Blocks[i+3].Txs, HTx{K: "eth-send", A: a, B: (a + 2) % hUsers, Amt: "1", N: 0})
			}
		}
	}
	if has("eth-blockhash") && nb >= 5 && rapid.IntRange(0, 2).Draw(t, "blockhash-scenario") == 0 {
		// late in the history a contract asks for the hash of a block further back than the chain keeps headers for
		a := rapid.IntRange(0, hUsers-1).Draw(t, "bh-a")
		for k := 0; k < 2; k++ {
			h.Blocks[nb-1-k].Txs = append(h.Blocks[nb-1-k].Txs, HTx{K: "eth-blockhash", A: a, N: rapid.IntRange(2, nb-2).Draw(t, "bh-n")})
		}
	}
	if has("eth-toucher") && nb >= 2 && rapid.IntRange(0, 3).Draw(t, "toucher-scenario") == 0 {
		// a user delegates to validator 0, lets its agent contract undelegate, and calls it: the agent touches the pools with
		// zero-value calls before the precompile moves coins into them
		i := rapid.IntRange(0, nb-2).Draw(t, "tch-at")
		a := rapid.IntRange(0, hUsers-1).Draw(t, "tch-a")
		h.Blocks[i].Txs = append([]HTx{{K: "delegate-val0", A: a, Amt: "5000000"}, {K: "eth-approve-toucher", A: a, N: 0}}, h.Blocks[i].Txs...)
		h.Blocks[i+1].Txs = append([]HTx{{K: "eth-toucher", A: a, N: 0}}, h.Blocks[i+1].Txs...)
	}
	if has("gov-vote") && nb >= 3 && rapid.IntRange(0, 2).Draw(t, "gov-exec-scenario") == 0 {
		// a proposal with messages is submitted by a large delegator, voted through, and executed (or rolled back) when
		// its voting period ends
		i := rapid.IntRange(0, nb-3).Draw(t, "ge-at")
		a := rapid.IntRange(0, hUsers-1).Draw(t, "ge-a")
		h.Blocks[i].Txs = append([]HTx{{K: "delegate", A: a, V: 0, Amt: "50000000"}, {K: "gov-submit", A: a, Amt: "1000000", N: rapid.SampledFrom([]int{3, 4, 4}).Draw(t, "ge-kind"), V: rapid.IntRange(0, 3).Draw(t, "ge-v") * 2}}, h.Blocks[i].Txs...)
		h.Blocks[i+1].Dt = 5
		h.Blocks[i+1].Txs = append([]HTx{{K: "gov-vote", A: a, V: 0, N: 0}}, h.Blocks[i+1].Txs...)
		h.Blocks[i+2].Dt = 61
	}
	if has("gov-vote") && nb >= 2 && rapid.IntRange(0, 1).Draw(t, "gov-scenario") == 0 {
		i := rapid.IntRange(0, nb-2).Draw(t, "gov-at")
		h.Blocks[i].Txs = append([]HTx{{K: "gov-submit", A: rapid.IntRange(0, hUsers-1).Draw(t, "gov-a"), Amt: "1000000", N: 1, V: rapid.IntRange(0, 1).Draw(t, "gov-two-denoms")}}, h.Blocks[i].Txs...)
		h.Blocks[i+1].Dt = rapid.SampledFrom([]int64{1, 5, 30}).Draw(t, "gov-dt")
		for k := 0; k < 2; k++ {
			h.Blocks[i+1].Txs = append(h.Blocks[i+1].Txs, HTx{K: "gov-vote", A: rapid.IntRange(0, hUsers-1).Draw(t, "gov-voter"), V: rapid.IntRange(0, 3).Draw(t, "gov-opt")})
		}
	}
	return h
}

// ---- genesis for histories -----------------------------------------------------------------------------------

func hUsersAccts() []chain.Account { return chain.Accts("hu", hUsers) }

func hVestAccts() []chain.Account { return chain.Accts("hvest", 3) }

func hOpts(h History) chain.Opts {
	o := chain.Opts{NumVals: h.NumVals, Accounts: append(hUsersAccts(), hVestAccts()...), ValPower: 100,
		ExtraCoins: sdk.NewCoins(sdk.NewCoin("uxmpl", sdkmath.NewInt(1_000_000_000_000)))}
	if h.Start != "" {
		ts, err := time.Parse(time.RFC3339, h.Start)
		must(err)
		o.GenesisTime = ts.UTC()
	}
	if h.TinyBaseFee && !h.NoBaseFee && !h.LateForks {
		o.MaxGas = 60_000_000
	}
	if h.Coinomics {
		p := coinomicstypes.DefaultParams()
		g := coinomicstypes.NewGenesisState(p, sdk.NewCoin(chain.Denom, sdkmath.NewIntWithDecimal(1, 29)))
		o.Coinomics = &g
	}
	o.Mutate = func(cdc codec.Codec, gs haqqtypes.GenesisState) {
		gp := govv1.DefaultParams()
		gp.MinDeposit = sdk.NewCoins(islm(10))
		d60, d45 := 60*time.Second, 45*time.Second
		gp.MaxDepositPeriod, gp.VotingPeriod = &d45, &d60
		gp.BurnVoteQuorum, gp.BurnProposalDepositPrevote, gp.BurnVoteVeto = true, true, true
		gg := govv1.DefaultGenesisState()
		gg.Params = &gp
		gs[govtypes.ModuleName] = cdc.MustMarshalJSON(gg)

		var sg stakingtypes.GenesisState
		cdc.MustUnmarshalJSON(gs[stakingtypes.ModuleName], &sg)
		sg.Params.UnbondingTime = 120 * time.Second
		sg.Params.HistoricalEntries = 3 // BLOCKHASH sees only the last three headers
		gs[stakingtypes.ModuleName] = cdc.MustMarshalJSON(&sg)

		var sl slashingtypes.GenesisState
		cdc.MustUnmarshalJSON(gs[slashingtypes.ModuleName], &sl)
		sl.Params.SignedBlocksWindow = 4
		sl.Params.MinSignedPerWindow = sdk.NewDecWithPrec(75, 2)
		sl.Params.DowntimeJailDuration = 30 * time.Second
		sl.Params.SlashFractionDowntime = sdk.NewDecWithPrec(1, 2)
		sl.Params.SlashFractionDoubleSign = sdk.NewDecWithPrec(5, 2)
		gs[slashingtypes.ModuleName] = cdc.MustMarshalJSON(&sl)

		dg := distrtypes.DefaultGenesisState()
		dg.Params.CommunityTax = sdk.NewDecWithPrec(2, 2)
		gs[distrtypes.ModuleName] = cdc.MustMarshalJSON(dg)

		if h.ModuleAccts {
			var ag authtypes.GenesisState
			cdc.MustUnmarshalJSON(gs[authtypes.ModuleName], &ag)
			accs, err := authtypes.UnpackAccounts(ag.Accounts)
			must(err)
			for _, m := range hModulePerms {
				accs = append(accs, authtypes.NewEmptyModuleAccount(m.Name, m.Perms...))
			}
			packed, err := authtypes.PackAccounts(accs)
			must(err)
			ag.Accounts = packed
			gs[authtypes.ModuleName] = cdc.MustMarshalJSON(&ag)
		}
		if h.FarEpoch {
			var pg epochstypes.GenesisState
			cdc.MustUnmarshalJSON(gs[epochstypes.ModuleName], &pg)
			pg.Epochs = append(pg.Epochs, epochstypes.EpochInfo{Identifier: "quarter", StartTime: hGenesisTime(h).Add(45 * 24 * time.Hour), Duration: 30 * 24 * time.Hour})
			gs[epochstypes.ModuleName] = cdc.MustMarshalJSON(&pg)
		}
		if h.CapNear && h.Coinomics {
			var bg banktypes.GenesisState
			cdc.MustUnmarshalJSON(gs[banktypes.ModuleName], &bg)
			var cg coinomicstypes.GenesisState
			cdc.MustUnmarshalJSON(gs[coinomicstypes.ModuleName], &cg)
			cg.MaxSupply = sdk.NewCoin(chain.Denom, bg.Supply.AmountOf(chain.Denom).Add(sdkmath.NewInt(20_000_000_000_000)))
			gs[coinomicstypes.ModuleName] = cdc.MustMarshalJSON(&cg)
		}
		if h.FutureEpoch {
			var pg epochstypes.GenesisState
			cdc.MustUnmarshalJSON(gs[epochstypes.ModuleName], &pg)
			pg.Epochs = append(pg.Epochs, epochstypes.EpochInfo{Identifier: "launch", StartTime: hGenesisTime(h).Add(12 * time.Second), Duration: 40 * time.Second})
			gs[epochstypes.ModuleName] = cdc.MustMarshalJSON(&pg)
		}
		if h.LateForks {
			var eg evmtypes.GenesisState
			cdc.MustUnmarshalJSON(gs[evmtypes.ModuleName], &eg)
			cc := eg.Params.ChainConfig
			cc.LondonBlock, cc.ArrowGlacierBlock, cc.GrayGlacierBlock, cc.MergeNetsplitBlock, cc.ShanghaiBlock, cc.CancunBlock = nil, nil, nil, nil, nil, nil
			eg.Params.ChainConfig = cc
			gs[evmtypes.ModuleName] = cdc.MustMarshalJSON(&eg)
		}
		if h.TinyBaseFee && !h.NoBaseFee && !h.LateForks {
			var fg feemarkettypes.GenesisState
			cdc.MustUnmarshalJSON(gs[feemarkettypes.ModuleName], &fg)
			fg.Params.BaseFee = sdkmath.NewInt(3)
			fg.Params.ElasticityMultiplier = 1000
			gs[feemarkettypes.ModuleName] = cdc.MustMarshalJSON(&fg)
		}
		if h.NoBaseFee || h.LateForks {
			var fg feemarkettypes.GenesisState
			cdc.MustUnmarshalJSON(gs[feemarkettypes.ModuleName], &fg)
			fg.Params.NoBaseFee = true
			fg.Params.MinGasPrice = sdk.NewDec(1_000_000_000)
			gs[feemarkettypes.ModuleName] = cdc.MustMarshalJSON(&fg)
		}
	}
	return o
}

func hGenesisTime(h History) time.Time {
	if h.Start == "" {
		return chain.GenesisTime
	}
	ts, err := time.Parse(time.RFC3339, h.Start)
	must(err)
	return ts.UTC()
}

// ---- executor ------------------------------------------------------------------------------------------------

type TxDigest struct {
	Code      uint32
	Codespace string
	GasWanted int64
	GasUsed   int64
	Data      string
	Events    string
}

type BlockTrace struct {
	Height  int64
	AppHash string
	Begin   string // digest of BeginBlock events
	End     string // digest of EndBlock events
	Txs     []TxDigest
	ValUpds string
}

func digestEvents(evs []abci.Event) string {
	s := ""
	for _, e := range evs {
		s += e.Type + "{"
		for _, a := range e.Attributes {
			s += a.Key + "=" + a.Value + ";"
		}
		s += "}"
	}
	h := ethcrypto.Keccak256([]byte(s))
	return fmt.Sprintf("%x", h[:8])
}

func digestTx(r abci.ResponseDeliverTx) TxDigest {
	return TxDigest{Code: r.Code, Codespace: r.Codespace, GasWanted: r.GasWanted, GasUsed: r.GasUsed, Data: fmt.Sprintf("%x", ethcrypto.Keccak256(r.Data)[:8]), Events: digestEvents(r.Events)}
}

type hStats struct {
	OK        map[string]int // successful txs per kind
	Fail      map[string]int
	Slashes   int
	EvmMulti  int // successful EVM txs that touched >= 2 accounts / slots
	Contracts []common.Address
	Tokens    []hToken
	GovOK     map[string]int
}

type hToken struct {
	Addr  common.Address
	Owner int
}

type hRunner struct {
	n     *chain.Node
	users []chain.Account
	st    *hStats
	// deployed storage contracts (address) in deployment order
}

func newHRunner(n *chain.Node) *hRunner {
	return &hRunner{n: n, users: hUsersAccts(), st: &hStats{OK: map[string]int{}, Fail: map[string]int{}, GovOK: map[string]int{}}}
}

func milli(s string) *big.Int {
	if s == "" {
		s = "1000"
	}
	v := bigOf(s)
	return v.Mul(v, big.NewInt(1_000_000_000_000_000))
}

func (r *hRunner) bondedVals() []stakingtypes.Validator {
	vals := r.n.App.StakingKeeper.GetAllValidators(r.n.Ctx())
	sort.Slice(vals, func(i, j int) bool { return vals[i].OperatorAddress < vals[j].OperatorAddress })
	return vals
}

// storageContract: calldata word0 = base value; writes slots 0..3 := base+i, emits a log, and forwards any value to
// the recipient encoded in word1 (if non-zero).
func storageRuntime() []byte {
	a := evmasm.New()
	for i := uint64(0); i < 4; i++ {
		a.Push(0).Op(0x35) // CALLDATALOAD(0)
		a.Push(i).Op(0x01) // ADD
		a.Push(i).Op(0x55) // SSTORE(i, base+i)
	}
	a.Push(7).Push(0).Push(0).Op(0xa1) // LOG1
	// forward value: CALL(gas, to=calldata[32], value=CALLVALUE, 0,0,0,0)
	a.Push(0).Push(0).Push(0).Push(0).Op(0x34) // CALLVALUE
	a.Push(32).Op(0x35)                        // CALLDATALOAD(32)
	a.Op(0x5a)                                 // GAS
	a.Op(0xf1, 0x50)                           // CALL, POP
	a.Op(0x00)
	return a.Bytes()
}

// fanoutRuntime pays 1 wei to each of the four addresses base, base+1, base+2, base+3 (base = calldata word 0).
func fanoutRuntime() []byte {
	a := evmasm.New()
	for i := uint64(0); i < 4; i++ {
		a.Push(0).Push(0).Push(0).Push(0).Push(1)
		a.Push(0).Op(0x35).Push(i).Op(0x01) // CALLDATALOAD(0) + i
		a.Op(0x5a, 0xf1, 0x50)              // GAS CALL POP
	}
	a.Op(0x00)
	return a.Bytes()
}

var hFanoutAddr = evmasm.FrameAddr(9)
var hBlockhashAddr = evmasm.FrameAddr(10)

// buildTx turns an intent into signed tx bytes (nil = nothing to do in this state).
func (r *hRunner) buildTx(x HTx) []byte {
	n := r.n
	ctx := n.Ctx()
	app := n.App
	A, B := r.users[x.A%len(r.users)], r.users[x.B%len(r.users)]
	amt := milli(x.Amt)
	coin := sdk.NewCoin(chain.Denom, sdkmath.NewIntFromBigInt(amt))
	vals := r.bondedVals()
	val := vals[x.V%len(vals)]
	valAddr, _ := sdk.ValAddressFromBech32(val.OperatorAddress)
	num, seq := txb.AccInfo(ctx, app, A.Addr)
	price := big.NewInt(40_000_000_000)
	cosmos := func(signer chain.Account, gas uint64, msgs ...sdk.Msg) []byte {
		nm, sq := txb.AccInfo(ctx, app, signer.Addr)
		return txb.CosmosTx(signer, txb.Cosmos{Msgs: msgs, Gas: gas, Fee: coinsOfGas(gas, price), ChainID: chain.ChainID, AccNum: nm, Seq: sq})
	}
	eth := func(to *common.Address, value *big.Int, data []byte, gas uint64) []byte {
		typ := 2
		if x.N%3 == 0 || !evmtypes.IsLondon(app.EvmKeeper.GetParams(ctx).ChainConfig.EthereumConfig(big.NewInt(11235)), ctx.BlockHeight()) {
			typ = 0 // (fee-market transactions do not exist before the London rules)
		}
		return txb.EthTx(A, txb.Eth{Type: typ, ChainID: big.NewInt(11235), Nonce: seq, To: to, Value: value, Gas: gas, GasPrice: price, FeeCap: price, TipCap: big.NewInt(1_000_000_000), Data: data})
	}
	_ = num
	switch x.K {
	case "send":
		return cosmos(A, 200000, banktypes.NewMsgSend(A.Addr, B.Addr, sdk.NewCoins(coin)))
	case "send-module":
		target := authtypes.NewModuleAddress(hModuleTargets[x.N%len(hModuleTargets)])
		if x.V%2 == 1 {
			// the same through a multi-send with an ordinary second output
			half := sdk.NewCoins(sdk.NewCoin(chain.Denom, coin.Amount.QuoRaw(2)))
			rest := sdk.NewCoins(coin).Sub(half...)
			return cosmos(A, 300000, &banktypes.MsgMultiSend{Inputs: []banktypes.Input{banktypes.NewInput(A.Addr, sdk.NewCoins(coin))},
				Outputs: []banktypes.Output{banktypes.NewOutput(B.Addr, half), banktypes.NewOutput(target, rest)}})
		}
		return cosmos(A, 200000, banktypes.NewMsgSend(A.Addr, target, sdk.NewCoins(coin)))
	case "multisend-new":
		// an airdrop: one input, several outputs to addresses that have no account yet (N == 7: one of them twice)
		k := 2 + x.N%4
		each := sdk.NewCoins(sdk.NewCoin(chain.Denom, coin.Amount.QuoRaw(int64(k+1)).AddRaw(1)))
		var outs []banktypes.Output
		total := sdk.NewCoins()
		for i := 0; i < k; i++ {
			to := chain.Acct(fmt.Sprintf("fresh-%d-%d-%d-%d", ctx.BlockHeight(), x.A, seq, i)).Addr
			outs = append(outs, banktypes.NewOutput(to, each))
			total = total.Add(each...)
		}
		if x.N == 7 {
			outs = append(outs, outs[0])
			total = total.Add(each...)
		}
		return cosmos(A, 200000+uint64(k)*100000, &banktypes.MsgMultiSend{Inputs: []banktypes.Input{banktypes.NewInput(A.Addr, total)}, Outputs: outs})
	case "delegate":
		return cosmos(A, 400000, stakingtypes.NewMsgDelegate(A.Addr, valAddr, coin))
	case "delegate-val0":
		return cosmos(A, 400000, stakingtypes.NewMsgDelegate(A.Addr, sdk.ValAddress(chain.ValOp(0).Addr), coin))
	case "undelegate", "redelegate", "withdraw":
		// resolve against A's existing delegations (fall back to the drawn validator, which then fails)
		dels := app.StakingKeeper.GetDelegatorDelegations(ctx, A.Addr, 100)
		part := coin
		if len(dels) > 0 {
			d := dels[x.V%len(dels)]
			valAddr = d.GetValidatorAddr()
			if v, ok := app.StakingKeeper.GetValidator(ctx, valAddr); ok {
				tokens := v.TokensFromShares(d.Shares).TruncateInt()
				part = sdk.NewCoin(chain.Denom, tokens.QuoRaw(int64(1+x.N%4)))
				if x.N == 7 {
					part = sdk.NewCoin(chain.Denom, tokens.AddRaw(1)) // more than delegated: must fail
				}
			}
		}
		if !part.IsPositive() {
			return nil
		}
		switch x.K {
		case "undelegate":
			return cosmos(A, 500000, stakingtypes.NewMsgUndelegate(A.Addr, valAddr, part))
		case "redelegate":
			for k := 1; k <= len(vals); k++ {
				dst := vals[(x.B+k)%len(vals)]
				if dst.OperatorAddress != valAddr.String() {
					dstAddr, _ := sdk.ValAddressFromBech32(dst.OperatorAddress)
					return cosmos(A, 600000, stakingtypes.NewMsgBeginRedelegate(A.Addr, valAddr, dstAddr, part))
				}
			}
			return nil
		default:
			return cosmos(A, 400000, distrtypes.NewMsgWithdrawDelegatorReward(A.Addr, valAddr))
		}
	case "setwithdraw":
		return cosmos(A, 200000, distrtypes.NewMsgSetWithdrawAddress(A.Addr, B.Addr))
	case "unjail":
		op := chain.ValOp(x.V % n.Opts.NumVals)
		return cosmos(op, 400000, slashingtypes.NewMsgUnjail(sdk.ValAddress(op.Addr)))
	case "gov-submit":
		dep := sdk.NewCoins(coin)
		if x.V%2 == 1 {
			dep = dep.Add(sdk.NewInt64Coin("uxmpl", int64(1000+x.N))) // gov accepts any denomination as a deposit
		}
		var pmsgs []sdk.Msg
		if x.N%5 >= 3 {
			// a proposal that carries messages: a fee-market parameter change, and (N%5 == 4) behind it a message that
			// cannot succeed, so that the whole execution is rolled back
			fp := app.FeeMarketKeeper.GetParams(ctx)
			fp.BaseFee = fp.BaseFee.AddRaw(int64(12345 + x.N))
			fp.MinGasMultiplier = sdk.NewDecWithPrec(int64(40+x.V), 2)
			gov := authtypes.NewModuleAddress(govtypes.ModuleName)
			pmsgs = append(pmsgs, &feemarkettypes.MsgUpdateParams{Authority: gov.String(), Params: fp})
			if x.N%5 == 4 {
				pmsgs = append(pmsgs, banktypes.NewMsgSend(gov, A.Addr, sdk.NewCoins(sdk.NewCoin(chain.Denom, sdkmath.NewIntWithDecimal(1, 30)))))
			}
		}
		m, err := govv1.NewMsgSubmitProposal(pmsgs, dep, A.Addr.String(), "meta", fmt.Sprintf("title %d", x.N), "summary")
		must(err)
		return cosmos(A, 500000, m)
	case "gov-deposit", "gov-vote":
		props := app.GovKeeper.GetProposals(ctx)
		if len(props) == 0 {
			return nil
		}
		p := props[x.N%len(props)]
		if x.K == "gov-vote" {
			var voting []*govv1.Proposal
			for _, q := range props {
				if q.Status == govv1.StatusVotingPeriod {
					voting = append(voting, q)
				}
			}
			if len(voting) > 0 {
				p = voting[x.N%len(voting)]
			}
		}
		if x.K == "gov-deposit" {
			dep := sdk.NewCoins(coin)
			if x.V%2 == 1 {
				dep = dep.Add(sdk.NewInt64Coin("uxmpl", int64(500+x.N)))
			}
			return cosmos(A, 400000, govv1.NewMsgDeposit(A.Addr, p.Id, dep))
		}
		opt := []govv1.VoteOption{govv1.OptionYes, govv1.OptionNo, govv1.OptionNoWithVeto, govv1.OptionAbstain}[x.V%4]
		return cosmos(A, 400000, govv1.NewMsgVote(A.Addr, p.Id, opt, ""))
	case "vest-create":
		// B (a fresh label per N so that several accounts appear) becomes a clawback vesting account funded by A
		target := chain.Acct(fmt.Sprintf("hvest%d", x.N%3))
		start := n.Header.Time.Add(-time.Duration(x.V*40) * time.Second)
		half := sdk.NewCoins(sdk.NewCoin(chain.Denom, sdkmath.NewIntFromBigInt(new(big.Int).Quo(amt, big.NewInt(2)))))
		rest := sdk.NewCoins(coin).Sub(half...)
		lock := sdkvesting.Periods{{Length: 60, Amount: half}, {Length: 90, Amount: rest}}
		vest := sdkvesting.Periods{{Length: 30, Amount: half}, {Length: 30, Amount: rest}}
		if x.N%2 == 0 {
			vest = nil // vested immediately, only locked: can be liquidated
		}
		if x.B%3 == 2 {
			// the grant's vested part is delegated by the message itself, to any validator (also a jailed / unbonding one)
			all := app.StakingKeeper.GetAllValidators(ctx)
			sort.Slice(all, func(i, j int) bool { return all[i].OperatorAddress < all[j].OperatorAddress })
			stakeTo := all[x.V%len(all)].GetOperator()
			if x.N%2 == 1 {
				vest = sdkvesting.Periods{{Length: 1, Amount: half}, {Length: 3000, Amount: rest}} // half vests at once
				if start.After(n.Header.Time.Add(-2 * time.Second)) {
					start = n.Header.Time.Add(-2 * time.Second)
				}
			}
			return cosmos(A, 1500000, vestingtypes.NewMsgConvertIntoVestingAccount(A.Addr, target.Addr, start, lock, vest, true, true, stakeTo))
		}
		return cosmos(A, 800000, vestingtypes.NewMsgConvertIntoVestingAccount(A.Addr, target.Addr, start, lock, vest, true, false, nil))
	case "delegate-all":
		// A stakes (nearly) everything it has, spread over the bonded validators, keeping less than one later fee:
		// its next transactions can only pay their fee out of staking rewards
		bal := app.BankKeeper.SpendableCoins(ctx, A.Addr).AmountOf(chain.Denom)
		gas := uint64(300000 * len(vals))
		fee := sdkmath.NewIntFromBigInt(new(big.Int).Mul(price, new(big.Int).SetUint64(gas)))
		reserve := sdkmath.NewInt(3_000_000_000_000_000) // 0.003 ISLM: below the fee of an ordinary transaction
		stake := bal.Sub(fee).Sub(reserve)
		if !stake.IsPositive() {
			return nil
		}
		var msgs []sdk.Msg
		part := stake.QuoRaw(int64(len(vals)))
		for _, v := range vals {
			msgs = append(msgs, stakingtypes.NewMsgDelegate(A.Addr, v.GetOperator(), sdk.NewCoin(chain.Denom, part)))
		}
		return cosmos(A, gas, msgs...)
	case "vest-clawback":
		target := chain.Acct(fmt.Sprintf("hvest%d", x.N%3))
		signer := A
		if va, ok := app.AccountKeeper.GetAccount(ctx, target.Addr).(*vestingtypes.ClawbackVestingAccount); ok && x.V != 3 {
			// the recorded funder signs (x.V == 3: somebody else tries, must fail)
			for _, u := range r.users {
				if u.Addr.String() == va.FunderAddress {
					signer = u
				}
			}
		}
		return cosmos(signer, 500000, vestingtypes.NewMsgClawback(signer.Addr, target.Addr, B.Addr))
	case "lv-liquidate":
		target := chain.Acct(fmt.Sprintf("hvest%d", x.N%3))
		va, ok := app.AccountKeeper.GetAccount(ctx, target.Addr).(*vestingtypes.ClawbackVestingAccount)
		if !ok {
			if os.Getenv("VERIF_DEBUG") != "" {
				fmt.Printf("DEBUG lv-liquidate: %s is not a vesting account\n", target.Label)
			}
			return nil
		}
		locked := va.GetLockedUpCoins(n.Header.Time).AmountOf(chain.Denom)
		if os.Getenv("VERIF_DEBUG") != "" {
			fmt.Printf("DEBUG lv-liquidate: locked %s unvested %s\n", locked, va.GetVestingCoins(n.Header.Time))
		}
		q := locked.QuoRaw(int64(1 + x.V%3))
		if x.V == 3 {
			q = locked.AddRaw(1) // more than locked: must fail
		}
		if !q.IsPositive() {
			return nil
		}
		return cosmos(target, 15000000, lvtypes.NewMsgLiquidate(target.Addr, A.Addr, sdk.NewCoin(chain.Denom, q)))
	case "lv-redeem":
		// redeem whatever liquid denom A holds (N == 7: the coins are to be paid to a module account)
		if x.N == 7 {
			B = chain.Account{Addr: authtypes.NewModuleAddress(hModuleTargets[(x.V+x.B)%len(hModuleTargets)])}
		}
		for _, c := range app.BankKeeper.GetAllBalances(ctx, A.Addr) {
			if len(c.Denom) > 7 && c.Denom[:7] == "aLIQUID" {
				q := c.Amount.QuoRaw(int64(1 + x.V%3))
				if q.IsPositive() {
					return cosmos(A, 8000000, lvtypes.NewMsgRedeem(A.Addr, B.Addr, sdk.NewCoin(c.Denom, q)))
				}
			}
		}
		// or its ERC20 representation (liquidation converts the new token to ERC20 for the recipient): redeem a
		// fraction of what any user could hold; holders are the users that received a liquidation
		denoms := app.LiquidVestingKeeper.GetAllDenoms(ctx)
		if len(denoms) == 0 {
			return nil
		}
		d := denoms[x.N%len(denoms)]
		total := d.LockupPeriods.TotalAmount().AmountOf(chain.Denom)
		q := total.QuoRaw(int64(1 + x.V%3))
		if !q.IsPositive() {
			return nil
		}
		// the holder is whoever received it: try every user as redeemer, the first with enough ERC20/coins wins
		for k := 0; k < len(r.users); k++ {
			u := r.users[(x.A+k)%len(r.users)]
			pairID := app.Erc20Keeper.GetTokenPairID(ctx, d.GetBaseDenom())
			pair, found := app.Erc20Keeper.GetTokenPair(ctx, pairID)
			if !found {
				continue
			}
			erc := app.Erc20Keeper.BalanceOf(ctx, erc20ABI(), pair.GetERC20Contract(), u.Hex)
			have := new(big.Int).Add(erc, app.BankKeeper.GetBalance(ctx, u.Addr, d.GetBaseDenom()).Amount.BigInt())
			if have.Sign() > 0 {
				if have.Cmp(q.BigInt()) < 0 {
					q = sdkmath.NewIntFromBigInt(have)
				}
				return cosmos(u, 8000000, lvtypes.NewMsgRedeem(u.Addr, B.Addr, sdk.NewCoin(d.GetBaseDenom(), q)))
			}
		}
		return nil
	case "dao-fund":
		// with a liquid-vesting token if the user holds one (alone, or together with the native coin)
		var liquid sdk.Coins
		for _, c := range app.BankKeeper.GetAllBalances(ctx, A.Addr) {
			if strings.HasPrefix(c.Denom, "aLIQUID") && c.Amount.IsPositive() {
				liquid = sdk.NewCoins(sdk.NewCoin(c.Denom, c.Amount.QuoRaw(2).AddRaw(1)))
				break
			}
		}
		var unwrap []sdk.Msg
		if liquid == nil {
			// a liquidation hands the new token over in its ERC20 form: convert half of it back first (same tx)
			for _, d := range app.LiquidVestingKeeper.GetAllDenoms(ctx) {
				pair, found := app.Erc20Keeper.GetTokenPair(ctx, app.Erc20Keeper.GetTokenPairID(ctx, d.GetBaseDenom()))
				if !found {
					continue
				}
				if erc := app.Erc20Keeper.BalanceOf(ctx, erc20ABI(), pair.GetERC20Contract(), A.Hex); erc != nil && erc.Sign() > 0 {
					part := sdkmath.NewIntFromBigInt(erc).QuoRaw(2).AddRaw(1)
					unwrap = []sdk.Msg{erc20types.NewMsgConvertERC20(part, A.Addr, pair.GetERC20Contract(), A.Hex)}
					liquid = sdk.NewCoins(sdk.NewCoin(d.GetBaseDenom(), part))
					break
				}
			}
		}
		switch {
		case liquid != nil && len(unwrap) > 0 && x.V%2 == 0:
			return cosmos(A, 6000000, append(unwrap, ucdaotypes.NewMsgFund(liquid, A.Addr))...)
		case liquid != nil && len(unwrap) > 0 && x.V == 1:
			return cosmos(A, 6000000, append(unwrap, ucdaotypes.NewMsgFund(liquid.Add(coin), A.Addr))...)
		case liquid != nil && x.V%2 == 0:
			return cosmos(A, 300000, ucdaotypes.NewMsgFund(liquid, A.Addr))
		case liquid != nil && x.V == 1:
			return cosmos(A, 300000, ucdaotypes.NewMsgFund(liquid.Add(coin), A.Addr))
		}
		return cosmos(A, 300000, ucdaotypes.NewMsgFund(sdk.NewCoins(coin), A.Addr))
	case "dao-transfer":
		signer := A
		for k := 0; k < len(r.users); k++ {
			u := r.users[(x.A+k)%len(r.users)]
			if !app.DaoKeeper.GetAccountBalances(ctx, u.Addr).IsZero() {
				signer = u
				break
			}
		}
		if x.N%2 == 0 {
			return cosmos(signer, 300000, ucdaotypes.NewMsgTransferOwnershipWithRatio(signer.Addr, B.Addr, sdk.NewDecWithPrec(int64(1+x.V*3), 1)))
		}
		return cosmos(signer, 300000, ucdaotypes.NewMsgTransferOwnership(signer.Addr, B.Addr))
	case "eth-send":
		to := B.Hex
		if x.N >= 6 {
			// value sent to a module account's address (pools, distribution, fee collector, ...)
			to = common.BytesToAddress(authtypes.NewModuleAddress(hModuleTargets[(x.V+x.B)%len(hModuleTargets)]).Bytes())
		}
		return eth(&to, amt, nil, 21000)
	case "eth-create":
		if x.N%4 == 2 {
			// the constructor writes storage and returns no code: an account with storage, a nonce and empty code
			return eth(nil, big.NewInt(0), []byte{0x60, 0x2a, 0x60, 0x01, 0x55, 0x60, byte(x.V + 1), 0x60, 0x02, 0x55, 0x00}, 400000)
		}
		if x.N%4 == 3 {
			// runtime code starting with 0xEF: refused since the London rules (EIP-3541), accepted before them
			return eth(nil, big.NewInt(0), evmasm.InitCode(append([]byte{0xEF}, storageRuntime()...)), 400000)
		}
		return eth(nil, big.NewInt(0), evmasm.InitCode(storageRuntime()), 400000)
	case "eth-call":
		if len(r.st.Contracts) == 0 {
			return nil
		}
		c := r.st.Contracts[x.N%len(r.st.Contracts)]
		data := append(common.BigToHash(big.NewInt(int64(x.V+1))).Bytes(), common.BytesToHash(B.Hex.Bytes()).Bytes()...)
		return eth(&c, new(big.Int).Quo(amt, big.NewInt(1000)), data, 300000)
	case "eth-delegate":
		to := pabi.StakingAddr
		return eth(&to, big.NewInt(0), pabi.Pack("staking", "delegate", A.Hex, val.OperatorAddress, amt), 600000)
	case "eth-withdraw":
		to := pabi.DistributionAddr
		return eth(&to, big.NewInt(0), pabi.Pack("distribution", "withdrawDelegatorRewards", A.Hex, val.OperatorAddress), 600000)
	case "eth-blockhash":
		// a contract stores the hash of the block N+1 blocks back (within or beyond what the chain keeps)
		to := hBlockhashAddr
		return eth(&to, big.NewInt(0), common.BigToHash(big.NewInt(int64(1+x.N))).Bytes(), 200000)
	case "eth-approve-toucher":
		to := pabi.StakingAddr
		return eth(&to, big.NewInt(0), pabi.Pack("staking", "approve", hToucherAddr(x.A%hUsers), new(big.Int).Mul(oneISLM, big.NewInt(1000)), []string{"/cosmos.staking.v1beta1.MsgUndelegate"}), 600000)
	case "eth-toucher":
		to := hToucherAddr(x.A % hUsers)
		return eth(&to, big.NewInt(0), nil, 1500000)
	case "eth-prog":
		// pre-installed four-frame program (see hProg): entry 0 calls a frame that succeeds, entry 2 one that reverts
		to := evmasm.FrameAddr(0)
		if x.N%2 == 0 {
			to = evmasm.FrameAddr(2)
		}
		return eth(&to, big.NewInt(10), nil, 400000)
	case "eth-fanout":
		// four brand-new low addresses that share their first 16 bytes (the base moves with the sender's nonce)
		base := new(big.Int).SetUint64(0x10000*(seq+1) + uint64(x.A)*0x100 + uint64(x.N)*8)
		to := hFanoutAddr
		return eth(&to, big.NewInt(4), common.BigToHash(base).Bytes(), 400000)
	case "erc20-deploy":
		ctor, err := erc20ABI().Pack("", fmt.Sprintf("Token%d", len(r.st.Tokens)), fmt.Sprintf("TK%d", len(r.st.Tokens)), uint8(18))
		must(err)
		return eth(nil, big.NewInt(0), append(append([]byte{}, contracts.ERC20MinterBurnerDecimalsContract.Bin...), ctor...), 6000000)
	case "erc20-mint", "erc20-transfer", "erc20-convert":
		if len(r.st.Tokens) == 0 {
			return nil
		}
		tok := r.st.Tokens[x.N%len(r.st.Tokens)]
		switch x.K {
		case "erc20-mint":
			data, err := erc20ABI().Pack("mint", B.Hex, amt)
			must(err)
			owner := r.users[tok.Owner]
			_, oseq := txb.AccInfo(ctx, app, owner.Addr)
			return txb.EthTx(owner, txb.Eth{Type: 0, ChainID: big.NewInt(11235), Nonce: oseq, To: &tok.Addr, Value: big.NewInt(0), Gas: 300000, GasPrice: price, Data: data})
		case "erc20-transfer":
			dest := B.Hex
			if x.V%2 == 1 {
				dest = common.BytesToAddress(authtypes.NewModuleAddress("erc20").Bytes()) // conversion by transfer to the module
			}
			data, err := erc20ABI().Pack("transfer", dest, new(big.Int).Quo(amt, big.NewInt(1000)))
			must(err)
			return eth(&tok.Addr, big.NewInt(0), data, 400000)
		default:
			pair, found := app.Erc20Keeper.GetTokenPair(ctx, app.Erc20Keeper.GetERC20Map(ctx, tok.Addr))
			if !found {
				return nil
			}
			q := sdkmath.NewIntFromBigInt(new(big.Int).Quo(amt, big.NewInt(1000)))
			if x.N%2 == 1 {
				return cosmos(A, 3000000, erc20types.NewMsgConvertERC20(q, A.Addr, tok.Addr, A.Hex))
			}
			return cosmos(A, 3000000, erc20types.NewMsgConvertCoin(sdk.NewCoin(pair.Denom, q), A.Hex, A.Addr))
		}
	case "bad-nonce":
		to := B.Hex
		return txb.EthTx(A, txb.Eth{Type: 0, ChainID: big.NewInt(11235), Nonce: seq + 3, To: &to, Value: amt, Gas: 21000, GasPrice: price})
	case "low-fee":
		return txb.CosmosTx(A, txb.Cosmos{Msgs: []sdk.Msg{banktypes.NewMsgSend(A.Addr, B.Addr, sdk.NewCoins(coin))}, Gas: 200000, Fee: sdk.NewCoins(sdk.NewCoin(chain.Denom, sdkmath.NewInt(1))), ChainID: chain.ChainID, AccNum: num, Seq: seq})
	}
	panic("unknown intent " + x.K)
}

// hProg is installed at height 1 on every node that runs a history: frames 0/2 store, call frame 1/3 with 1 wei,
// forward 2 wei to a user and log; frame 1 stores and forwards; frame 3 does the same and then reverts.
// hToucher: user u's agent contract. It makes zero-value calls to the staking pools, the distribution account and the
// fee collector (a "touch"), then undelegates 1 ISLM of the user's stake with validator 0 through the staking precompile
// (the user must have approved it) and finally withdraws the user's rewards there through the distribution precompile.
func hToucherAddr(u int) common.Address { return evmasm.FrameAddr(20 + u) }

func hToucher(u int) []byte {
	user := hUsersAccts()[u]
	val0 := sdk.ValAddress(chain.ValOp(0).Addr).String()
	var ops []evmasm.Op
	for _, m := range []string{"not_bonded_tokens_pool", "bonded_tokens_pool", "distribution", "fee_collector"} {
		ops = append(ops, evmasm.Op{Kind: "send", Target: common.BytesToAddress(authtypes.NewModuleAddress(m).Bytes()).Hex(), Value: "0", NoRecord: true})
	}
	ops = append(ops,
		evmasm.Op{Kind: "pre", CallOp: "CALL", Target: pabi.StakingAddr.Hex(), Value: "0", Data: fmt.Sprintf("%x", pabi.Pack("staking", "undelegate", user.Hex, val0, oneISLM))},
		evmasm.Op{Kind: "pre", CallOp: "CALL", Target: pabi.DistributionAddr.Hex(), Value: "0", Data: fmt.Sprintf("%x", pabi.Pack("distribution", "withdrawDelegatorRewards", user.Hex, val0))})
	return evmasm.Program{Frames: []evmasm.Frame{{Ops: ops}}}.Compile()[0]
}

func hProg() evmasm.Program {
	recv := chain.Acct("hu1").Hex.Hex()
	entry := func(child int) evmasm.Frame {
		return evmasm.Frame{Ops: []evmasm.Op{{Kind: "sstore", Key: 1, Val: 7}, {Kind: "call", CallOp: "CALL", Child: child, Value: "1"}, {Kind: "send", Target: recv, Value: "2"}, {Kind: "log", Key: 3}}}
	}
	leaf := func(revert bool) evmasm.Frame {
		f := evmasm.Frame{Ops: []evmasm.Op{{Kind: "sstore", Key: 2, Val: 5}, {Kind: "send", Target: recv, Value: "1"}}}
		if revert {
			f.Ops = append(f.Ops, evmasm.Op{Kind: "revert"})
		}
		return f
	}
	return evmasm.Program{Frames: []evmasm.Frame{entry(1), leaf(false), entry(3), leaf(true)}}
}

// resolveGov turns a governance intent into a concrete operation against the current state (nil = not applicable).
func (r *hRunner) resolveGov(x HTx) *GovOp {
	ctx := r.n.Ctx()
	app := r.n.App
	switch x.K {
	case "register-erc20":
		for k := 0; k < len(r.st.Tokens); k++ {
			t := r.st.Tokens[(x.N+k)%len(r.st.Tokens)]
			if !app.Erc20Keeper.IsERC20Registered(ctx, t.Addr) {
				return &GovOp{K: "register-erc20", Addr: t.Addr.Hex()}
			}
		}
	case "toggle-pair":
		pairs := app.Erc20Keeper.GetTokenPairs(ctx)
		if len(pairs) > 0 {
			return &GovOp{K: "toggle-pair", Addr: pairs[x.N%len(pairs)].Erc20Address}
		}
	case "erc20-switch":
		return &GovOp{K: "erc20-switch"}
	case "coinomics-switch":
		return &GovOp{K: "coinomics-switch"}
	case "register-coin":
		if !app.Erc20Keeper.IsDenomRegistered(ctx, "uxmpl") {
			return &GovOp{K: "register-coin"}
		}
	case "upgrade-plan":
		// the software upgrade this binary carries a handler for, one block ahead
		if h := app.UpgradeKeeper.GetDoneHeight(ctx, hUpgradeName); h == 0 {
			if _, pending := app.UpgradeKeeper.GetUpgradePlan(ctx); !pending {
				return &GovOp{K: "upgrade-plan", Height: ctx.BlockHeight() + 1}
			}
		}
	case "fork-schedule":
		// hard forks that are still unscheduled (London and everything after it) get a start height a few blocks ahead;
		// an already scheduled or active fork is never moved
		if app.EvmKeeper.GetParams(ctx).ChainConfig.LondonBlock == nil {
			return &GovOp{K: "fork-schedule", Height: ctx.BlockHeight() + int64(2+x.N%3)}
		}
	case "precompile-off", "precompile-swap":
		all := evmtypes.AvailableEVMExtensions
		active := app.EvmKeeper.GetParams(ctx).ActivePrecompiles
		if x.K == "precompile-off" {
			// switch one off: the staking precompile (index 2 in the list) unless it is already off
			var out []string
			off := all[(2+x.N%1)%len(all)]
			for _, a := range active {
				if a != off {
					out = append(out, a)
				}
			}
			return &GovOp{K: "set-precompiles", Active: out}
		}
		// swap: re-enable everything that is off and switch another one off instead (same number of active ones)
		isActive := map[string]bool{}
		for _, a := range active {
			isActive[a] = true
		}
		nOff := len(all) - len(active)
		if nOff == 0 {
			return nil
		}
		var candidates []string
		for _, a := range all {
			if isActive[a] {
				candidates = append(candidates, a)
			}
		}
		newOff := map[string]bool{}
		for k := 0; k < nOff && k < len(candidates); k++ {
			newOff[candidates[(x.N+k)%len(candidates)]] = true
		}
		var out []string
		for _, a := range all {
			if !newOff[a] {
				out = append(out, a)
			}
		}
		return &GovOp{K: "set-precompiles", Active: out}
	}
	return nil
}

// applyGov executes a resolved governance operation through the public keeper method, as the passed proposal would.
func (r *hRunner) applyGov(g GovOp) {
	ctx := r.n.Ctx()
	app := r.n.App
	cctx, write := ctx.CacheContext()
	var err error
	switch g.K {
	case "register-erc20":
		_, err = app.Erc20Keeper.RegisterERC20(cctx, common.HexToAddress(g.Addr))
	case "toggle-pair":
		_, err = app.Erc20Keeper.ToggleConversion(cctx, g.Addr)
	case "register-coin":
		_, err = app.Erc20Keeper.RegisterCoin(cctx, banktypes.Metadata{Description: "example coin", Base: "uxmpl", Display: "xmpl", Name: "uxmpl", Symbol: "XMPL",
			DenomUnits: []*banktypes.DenomUnit{{Denom: "uxmpl", Exponent: 0}, {Denom: "xmpl", Exponent: 6}}})
	case "upgrade-plan":
		err = app.UpgradeKeeper.ScheduleUpgrade(cctx, upgradetypes.Plan{Name: hUpgradeName, Height: g.Height})
	case "fork-schedule":
		p := app.EvmKeeper.GetParams(cctx)
		at := sdkmath.NewInt(g.Height)
		cc := p.ChainConfig
		cc.LondonBlock, cc.ArrowGlacierBlock, cc.GrayGlacierBlock, cc.MergeNetsplitBlock, cc.ShanghaiBlock, cc.CancunBlock = &at, &at, &at, &at, &at, &at
		p.ChainConfig = cc
		if err = p.Validate(); err == nil {
			err = app.EvmKeeper.SetParams(cctx, p)
		}
	case "coinomics-switch":
		p := app.CoinomicsKeeper.GetParams(cctx)
		p.EnableCoinomics = !p.EnableCoinomics
		app.CoinomicsKeeper.SetParams(cctx, p)
	case "erc20-switch":
		p := app.Erc20Keeper.GetParams(cctx)
		p.EnableErc20 = !p.EnableErc20
		err = app.Erc20Keeper.SetParams(cctx, p)
	case "set-precompiles":
		p := app.EvmKeeper.GetParams(cctx)
		p.ActivePrecompiles = g.Active
		err = app.EvmKeeper.SetParams(cctx, p)
	}
	if err == nil {
		write()
		r.st.GovOK[g.K]++
	} else if os.Getenv("VERIF_DEBUG") != "" {
		fmt.Printf("DEBUG gov %+v failed: %v\n", g, err)
	}
}

// evidenceFor builds duplicate-vote evidence against validator index i of the current set.
func (r *hRunner) evidenceFor(i int) []abci.Misbehavior {
	n := r.n
	if len(n.ValsCur) == 0 {
		return nil
	}
	v := n.ValsCur[i%len(n.ValsCur)]
	var total int64
	for _, x := range n.ValsCur {
		total += x.Power
	}
	h := n.App.LastBlockHeight()
	if h < 1 {
		h = 1
	}
	return []abci.Misbehavior{{Type: abci.MisbehaviorType_DUPLICATE_VOTE, Validator: v, Height: h, Time: n.Header.Time, TotalVotingPower: total}}
}

// RunBlock executes one block of the history on the node. If feed != nil the given tx bytes are delivered instead of
// building them from the intents (replica mode). It returns the trace and the bytes that were delivered.
func (r *hRunner) RunBlock(b HBlock, feed *BlockFeed) (BlockTrace, BlockFeed) {
	n := r.n
	in := chain.BlockIn{Dt: time.Duration(b.Dt) * time.Second, Proposer: b.Proposer, Absent: b.Absent}
	if b.DoubleSign > 0 {
		in.Evidence = r.evidenceFor(b.DoubleSign - 1)
	}
	bb := n.BeginBlock(in)
	tr := BlockTrace{Height: n.Header.Height, Begin: digestEvents(bb.Events)}
	if acc := n.App.EvmKeeper.GetAccountOrEmpty(n.Ctx(), hFanoutAddr); len(n.App.EvmKeeper.GetCode(n.Ctx(), common.BytesToHash(acc.CodeHash))) == 0 {
		// first block of the chain: install the fixed helper contracts (a state-derived condition, identical on every replica)
		for i, code := range hProg().Compile() {
			n.InstallCode(evmasm.FrameAddr(i), code)
		}
		n.InstallCode(hFanoutAddr, fanoutRuntime())
		for u := 0; u < hUsers; u++ {
			n.InstallCode(hToucherAddr(u), hToucher(u))
		}
		// sstore(0, blockhash(number - calldataload(0)))
		n.InstallCode(hBlockhashAddr, []byte{0x60, 0x00, 0x35, 0x43, 0x03, 0x40, 0x60, 0x00, 0x55, 0x00})
	}
	for _, e := range bb.Events {
		if e.Type == "slash" {
			r.st.Slashes++
		}
	}
	var delivered [][]byte
	var okFlags []bool
	var govDone []GovOp
	if feed != nil {
		for _, g := range feed.Gov {
			r.applyGov(g)
		}
		govDone = feed.Gov
	} else {
		for _, x := range b.Gov {
			if g := r.resolveGov(x); g != nil {
				r.applyGov(*g)
				govDone = append(govDone, *g)
			}
		}
	}
	deliver := func(k string, bz []byte) {
		res := n.DeliverTx(bz)
		delivered = append(delivered, bz)
		tr.Txs = append(tr.Txs, digestTx(res))
		vmErr := ""
		if res.Code == 0 && len(k) > 3 && (k[:3] == "eth" || k[:3] == "erc") {
			vmErr, _ = decodeEthResponse(res.Data)
		}
		okFlags = append(okFlags, res.Code == 0 && vmErr == "")
		if res.Code == 0 && vmErr == "" {
			r.st.OK[k]++
		} else {
			r.st.Fail[k]++
			if os.Getenv("VERIF_DEBUG") != "" {
				fmt.Printf("DEBUG height %d tx %s failed: code %d %s %s\n", n.Header.Height, k, res.Code, vmErr, func() string {
					if os.Getenv("VERIF_DEBUG") == "2" {
						return res.Log
					}
					return trunc(res.Log)
				}())
			}
		}
	}
	if feed != nil {
		for _, bz := range feed.Txs {
			deliver("fed", bz)
		}
	} else {
		for _, x := range b.Txs {
			var bz []byte
			func() {
				defer func() {
					if rec := recover(); rec != nil {
						bz = nil // the intent cannot be expressed in this state (e.g. no such validator): skip
						if os.Getenv("VERIF_DEBUG") != "" {
							fmt.Printf("DEBUG build %s panicked: %v\n", x.K, rec)
						}
					}
				}()
				bz = r.buildTx(x)
			}()
			if bz == nil {
				continue
			}
			var preSeq uint64
			var sender chain.Account
			if x.K == "eth-create" || x.K == "erc20-deploy" {
				sender = r.users[x.A%len(r.users)]
				_, preSeq = txb.AccInfo(n.Ctx(), n.App, sender.Addr)
			}
			before := len(tr.Txs)
			deliver(x.K, bz)
			if (x.K == "eth-create") && okFlags[before] && x.N%4 < 2 {
				r.st.Contracts = append(r.st.Contracts, ethcrypto.CreateAddress(sender.Hex, preSeq))
			}
			if x.K == "erc20-deploy" && okFlags[before] {
				r.st.Tokens = append(r.st.Tokens, hToken{Addr: ethcrypto.CreateAddress(sender.Hex, preSeq), Owner: x.A % len(r.users)})
			}
			if x.K == "eth-fanout" && okFlags[before] {
				r.st.EvmMulti++
			}
			if (x.K == "eth-call" || x.K == "eth-prog") && okFlags[before] {
				r.st.EvmMulti++
			}
		}
	}
	eb, hash := n.EndBlockCommit()
	tr.End = digestEvents(eb.Events)
	tr.AppHash = fmt.Sprintf("%X", hash)
	for _, u := range eb.ValidatorUpdates {
		pk, _ := u.PubKey.Marshal()
		tr.ValUpds += fmt.Sprintf("%x:%d;", pk, u.Power)
	}
	return tr, BlockFeed{Gov: govDone, Txs: delivered}
}

func (t BlockTrace) Equal(o BlockTrace) (bool, string) {
	if t.AppHash != o.AppHash {
		return false, fmt.Sprintf("height %d: app hash %s vs %s", t.Height, t.AppHash, o.AppHash)
	}
	if t.ValUpds != o.ValUpds {
		return false, fmt.Sprintf("height %d: validator updates %s vs %s", t.Height, t.ValUpds, o.ValUpds)
	}
	if len(t.Txs) != len(o.Txs) {
		return false, fmt.Sprintf("height %d: %d vs %d tx results", t.Height, len(t.Txs), len(o.Txs))
	}
	for i := range t.Txs {
		a, b := t.Txs[i], o.Txs[i]
		if a.Code != b.Code || a.Codespace != b.Codespace || a.GasWanted != b.GasWanted || a.GasUsed != b.GasUsed || a.Data != b.Data {
			return false, fmt.Sprintf("height %d tx %d: result %+v vs %+v", t.Height, i, a, b)
		}
		if a.Events != b.Events {
			return false, fmt.Sprintf("height %d tx %d: events differ (events-only)", t.Height, i)
		}
	}
	if t.Begin != o.Begin || t.End != o.End {
		return false, fmt.Sprintf("height %d: begin/end block events differ (events-only)", t.Height)
	}
	return true, ""
}

// committedCtx is a read context over the last committed state.
func committedCtx(n *chain.Node) sdk.Context {
	return n.App.BaseApp.NewContext(true, n.Header)
}

func erc20ABI() abi.ABI { return contracts.ERC20MinterBurnerDecimalsContract.ABI }

var _ = authtypes.ModuleName
