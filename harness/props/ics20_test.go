package props

// ICS-20 precompile over a real IBC channel (same two-chain set-up as TestC10_IBC). One generated scenario per case:
// the chain's funded account (origin) sends an Ethereum transaction that reaches ics20.transfer directly, through a
// contract (sender = origin under an approval, or sender = the contract itself), inside a callee frame that then
// reverts, or in a transaction that fails as a whole; with 0 / 1 wei / 1 ISLM of value attached, amounts around the
// balance and the approval limit, the native coin or an ERC20-origin denomination (converted inside the transfer).
// Afterwards the same transfer is submitted as a native MsgTransfer.
//   C02: per-account ledger of the native coin and its total supply
//   C04: a contract moves origin's coins only under a live approval with a sufficient limit; the limit shrinks by the amount
//   C05: a transfer made in a frame that reverts, or in a failed transaction, leaves no packet, escrow or debit
//   C16: the precompile called by the owner and the native message have the same effect (deltas, packet data)

import (
	"encoding/json"
	"fmt"
	"math/big"
	"testing"

	abci "github.com/cometbft/cometbft/abci/types"
	sdk "github.com/cosmos/cosmos-sdk/types"
	transfertypes "github.com/cosmos/ibc-go/v7/modules/apps/transfer/types"
	clienttypes "github.com/cosmos/ibc-go/v7/modules/core/02-client/types"
	channeltypes "github.com/cosmos/ibc-go/v7/modules/core/04-channel/types"
	ibcgotesting "github.com/cosmos/ibc-go/v7/testing"
	"github.com/ethereum/go-ethereum/common"
	"pgregory.net/rapid"

	"verif/chain"
	"verif/ev"
	"verif/evmasm"
	"verif/pabi"
	"verif/txb"

	"github.com/haqq-network/haqq/crypto/ethsecp256k1"
	haqqibc "github.com/haqq-network/haqq/ibc/testing"
	cmn "github.com/haqq-network/haqq/precompiles/common"
	haqqtypes "github.com/haqq-network/haqq/types"
	"github.com/haqq-network/haqq/utils"
	"github.com/haqq-network/haqq/x/evm/statedb"
	evmtypes "github.com/haqq-network/haqq/x/evm/types"
)

type ICSCase struct {
	Shape    string `json:"shape"`             // direct | via | child-reverts | tx-fails
	Role     string `json:"role"`              // sender argument: origin | self (the calling contract) | third (a funded bystander)
	Denom    string `json:"denom"`             // native | erc20
	Amt      string `json:"amt"`               // decimal, or "balance+1"
	Value    string `json:"value"`             // tx value (wei)
	Approve  string `json:"approve"`           // "" (none) | decimal limit (origin approves the contract first)
	Receiver string `json:"receiver"`          // ok | bad
	Timeout  string `json:"timeout,omitempty"` // "" (a height) | none (height and timestamp both zero) | timestamp
	Edit     string `json:"edit,omitempty"`    // "" | inc | dec: the approval has a second allocation (another channel) which is then increased / decreased
}

func genICSCase(t *rapid.T) ICSCase {
	c := ICSCase{Shape: rapid.SampledFrom([]string{"direct", "via", "via", "via", "child-reverts", "tx-fails"}).Draw(t, "shape")}
	c.Role = rapid.SampledFrom([]string{"origin", "origin", "self", "third"}).Draw(t, "role")
	c.Denom = rapid.SampledFrom([]string{"native", "native", "erc20"}).Draw(t, "denom")
	c.Amt = rapid.SampledFrom([]string{"1", "1000", "1000000000000000000", "balance+1"}).Draw(t, "amt")
	c.Value = rapid.SampledFrom([]string{"0", "0", "1", "1000000000000000000"}).Draw(t, "value")
	c.Approve = rapid.SampledFrom([]string{"", "1000", "1000000000000000000", "999", "5000000000000000000"}).Draw(t, "approve")
	c.Receiver = rapid.SampledFrom([]string{"ok", "ok", "ok", "bad"}).Draw(t, "receiver")
	c.Timeout = rapid.SampledFrom([]string{"", "", "", "none", "timestamp"}).Draw(t, "timeout")
	c.Edit = rapid.SampledFrom([]string{"", "", "inc", "dec"}).Draw(t, "edit")
	if c.Shape == "direct" {
		c.Role, c.Value = "origin", "0"
	}
	return c
}

type icsDisc struct{ Prop, Key, What string }

type icsEnv struct {
	*ibcEnv
	origin  chain.Account
	chainID *big.Int
	price   *big.Int
	// afterDeliver, if set, runs after DeliverTx and before the block ends (begin/end blockers mint and distribute)
	afterDeliver func()
}

func (e *icsEnv) sync() {
	must(e.H.SenderAccount.SetSequence(e.app.AccountKeeper.GetAccount(e.H.GetContext(), e.origin.Addr).GetSequence()))
}

// eth delivers one Ethereum transaction of origin in a block of its own.
func (e *icsEnv) eth(to common.Address, value *big.Int, data []byte) (res abci.ResponseDeliverTx, vmErr string) {
	e.coord.UpdateTimeForChain(e.H)
	seq := e.app.AccountKeeper.GetAccount(e.H.GetContext(), e.origin.Addr).GetSequence()
	bz := txb.EthTx(e.origin, txb.Eth{Type: 0, ChainID: e.chainID, Nonce: seq, To: &to, Value: value, Gas: 3_000_000, GasPrice: e.price, Data: data})
	res = e.H.App.GetBaseApp().DeliverTx(abci.RequestDeliverTx{Tx: bz})
	if res.Code == 0 {
		if r, err := evmtypes.DecodeTxResponse(res.Data); err == nil {
			vmErr = r.VmError
		}
	}
	if e.afterDeliver != nil {
		e.afterDeliver()
	}
	e.H.NextBlock()
	e.sync()
	e.coord.IncrementTime()
	return
}

func runICS(t *testing.T, c ICSCase, class func(string)) (discs []icsDisc, nontrivial bool) {
	e := &icsEnv{ibcEnv: newIBCEnv(t)}
	priv, ok := e.H.SenderPrivKey.(*ethsecp256k1.PrivKey)
	if !ok {
		panic("sender key is not ethsecp256k1")
	}
	e.origin = chain.Account{Label: "origin", Priv: priv, Addr: e.H.SenderAccount.GetAddress(), Hex: common.BytesToAddress(e.H.SenderAccount.GetAddress().Bytes())}
	cid, err := haqqtypes.ParseChainID(e.H.ChainID)
	must(err)
	e.chainID, e.price = cid, big.NewInt(100_000_000_000)
	app := e.app
	add := func(p, k, w string) { discs = append(discs, icsDisc{p, k, w}) }
	port, channel := e.path.EndpointA.ChannelConfig.PortID, e.path.EndpointA.ChannelID
	escrow := transfertypes.GetEscrowAddress(port, channel)
	frame0, frame1 := evmasm.FrameAddr(0), evmasm.FrameAddr(1)
	denom := utils.BaseDenom
	if c.Denom == "erc20" {
		denom = e.denomT
	}
	balOf := func(a sdk.AccAddress, d string) *big.Int {
		return app.BankKeeper.GetBalance(e.H.GetContext(), a, d).Amount.BigInt()
	}
	tokBal := func(who common.Address) *big.Int {
		if b := app.Erc20Keeper.BalanceOf(e.H.GetContext(), erc20ABI(), e.token, who); b != nil {
			return b
		}
		return new(big.Int)
	}
	holdings := func(who common.Address) *big.Int { // of the transferred denomination, both representations for the ERC20 one
		h := balOf(sdk.AccAddress(who.Bytes()), denom)
		if c.Denom == "erc20" {
			h = new(big.Int).Add(h, tokBal(who))
		}
		return h
	}
	senderHex := e.origin.Hex
	third := chain.Acct("ics-third")
	if c.Role == "third" {
		senderHex = third.Hex
	}
	if c.Role == "self" {
		senderHex = frame0
		if c.Shape == "child-reverts" {
			senderHex = frame1
		}
	}
	// fund the contracts so that "self" transfers are possible
	{
		ctx := e.H.GetContext()
		for _, f := range []common.Address{frame0, frame1, third.Hex} {
			must(app.BankKeeper.SendCoins(ctx, e.origin.Addr, sdk.AccAddress(f.Bytes()), sdk.NewCoins(sdk.NewCoin(utils.BaseDenom, sdk.NewIntFromBigInt(bigOf("3000000000000000000"))))))
			if c.Denom == "erc20" {
				_, err := app.Erc20Keeper.CallEVM(ctx, erc20ABI(), e.origin.Hex, e.token, true, "transfer", f, big.NewInt(5_000_000))
				must(err)
			}
		}
		e.coord.CommitNBlocks(e.H, 1)
		e.sync()
	}
	amt := new(big.Int)
	if c.Amt == "balance+1" {
		amt = new(big.Int).Add(holdings(senderHex), big.NewInt(1))
	} else {
		amt = bigOf(c.Amt)
	}
	receiver := e.B.SenderAccount.GetAddress().String()
	if c.Receiver == "bad" {
		receiver = "not-an-address"
	}
	tHeight, tStamp := clienttypes.Height{RevisionNumber: 1, RevisionHeight: 1_000_000}, uint64(0)
	switch c.Timeout {
	case "none":
		tHeight = clienttypes.Height{} // no timeout at all: not a valid packet
	case "timestamp":
		tHeight, tStamp = clienttypes.Height{}, uint64(e.H.CurrentHeader.Time.UnixNano())+uint64(3600*1e9)
	}
	calldata := pabi.Pack("ics20", "transfer", port, channel, denom, amt, senderHex, receiver, tHeight, tStamp, "")
	// approval (origin -> the contract that will call the precompile)
	caller := frame0
	if c.Shape == "child-reverts" {
		caller = frame1
	}
	limit := new(big.Int)
	icsOtherChannel := "channel-7"
	if c.Edit != "" && c.Approve != "" && c.Shape != "direct" {
		// a second transfer channel on the same connection, so that an approval can carry two allocations
		p2 := haqqibc.NewTransferPath(e.H, e.B)
		p2.EndpointA.ClientID, p2.EndpointB.ClientID = e.path.EndpointA.ClientID, e.path.EndpointB.ClientID
		p2.EndpointA.ConnectionID, p2.EndpointB.ConnectionID = e.path.EndpointA.ConnectionID, e.path.EndpointB.ConnectionID
		haqqibc.CreateChannels(e.coord, p2)
		icsOtherChannel = p2.EndpointA.ChannelID
		e.sync()
	}
	if c.Approve != "" && c.Shape != "direct" {
		limit = bigOf(c.Approve)
		alloc := []cmn.ICS20Allocation{{SourcePort: port, SourceChannel: channel, SpendLimit: []cmn.Coin{{Denom: denom, Amount: limit}}, AllowList: []string{}}}
		if c.Edit != "" {
			alloc = append(alloc, cmn.ICS20Allocation{SourcePort: port, SourceChannel: icsOtherChannel, SpendLimit: []cmn.Coin{{Denom: denom, Amount: big.NewInt(777)}}, AllowList: []string{}})
		}
		if res, vm := e.eth(pabi.ICS20Addr, big.NewInt(0), pabi.Pack("ics20", "approve", caller, alloc)); res.Code != 0 || vm != "" {
			class("approve-refused")
			limit = new(big.Int)
		} else if c.Edit != "" {
			// the signer edits the allocation of the OTHER channel; the one for the live channel must not move
			method, want2 := "increaseAllowance", big.NewInt(777+5)
			delta := big.NewInt(5)
			if c.Edit == "dec" {
				method, want2, delta = "decreaseAllowance", big.NewInt(777-7), big.NewInt(7)
			}
			res, vm := e.eth(pabi.ICS20Addr, big.NewInt(0), pabi.Pack("ics20", method, caller, port, icsOtherChannel, denom, delta))
			if res.Code == 0 && vm == "" {
				got := icsAllowances(e, caller, denom)
				if bi(got, channel).Cmp(limit) != 0 || bi(got, icsOtherChannel).Cmp(want2) != 0 {
					add("C04", "ics20-allowance-edit-wrong-allocation", fmt.Sprintf("%+v: after %s(%s, %s) the approvals are %v; expected %s: %s, %s: %s", c, method, icsOtherChannel, delta, got, channel, limit, icsOtherChannel, want2))
				}
				class("allowance-of-another-channel-edited:" + c.Edit)
			}
		}
	}
	allowance := func() *big.Int {
		out, err := app.Erc20Keeper.CallEVMWithData(e.H.GetContext(), e.origin.Hex, &pabi.ICS20Addr, pabi.Pack("ics20", "allowance", caller, e.origin.Hex), false)
		if err != nil {
			return big.NewInt(-1)
		}
		vals, err := pabi.ABI("ics20").Unpack("allowance", out.Ret)
		if err != nil || len(vals) == 0 {
			return big.NewInt(-1)
		}
		total := new(big.Int)
		for _, a := range reflectAllocations(vals[0]) {
			if a.Denom == denom {
				total.Add(total, a.Amount)
			}
		}
		return total
	}
	// program
	prog := evmasm.Program{}
	pre := evmasm.Op{Kind: "pre", CallOp: "CALL", Target: pabi.ICS20Addr.Hex(), Data: fmt.Sprintf("%x", calldata), Value: "0"}
	switch c.Shape {
	case "via":
		prog.Frames = []evmasm.Frame{{Ops: []evmasm.Op{pre, {Kind: "sstore", Key: 1, Val: 1}}}}
	case "child-reverts":
		prog.Frames = []evmasm.Frame{{Ops: []evmasm.Op{{Kind: "call", CallOp: "CALL", Child: 1, Value: "0"}, {Kind: "sstore", Key: 1, Val: 1}}}, {Ops: []evmasm.Op{pre, {Kind: "revert"}}}}
	case "tx-fails":
		prog.Frames = []evmasm.Frame{{Ops: []evmasm.Op{pre, {Kind: "invalid"}}}}
	}
	if len(prog.Frames) > 0 {
		ctx := e.H.GetContext()
		db := statedb.New(ctx, app.EvmKeeper, statedb.NewEmptyTxConfig(common.BytesToHash(ctx.HeaderHash().Bytes())))
		for i, code := range prog.Compile() {
			db.SetCode(evmasm.FrameAddr(i), code)
		}
		must(db.Commit())
		e.coord.CommitNBlocks(e.H, 1)
		e.sync()
	}
	// ---- the Ethereum transaction ----
	feeColl := sdk.AccAddress(common.HexToAddress("0x0").Bytes())
	_ = feeColl
	watch := map[string]common.Address{"origin": e.origin.Hex, "frame0": frame0, "frame1": frame1, "third": third.Hex, "escrow": common.BytesToAddress(escrow.Bytes())}
	before := map[string]*big.Int{}
	beforeH := map[string]*big.Int{}
	for k, a := range watch {
		before[k] = balOf(sdk.AccAddress(a.Bytes()), utils.BaseDenom)
		beforeH[k] = holdings(a)
	}
	supply0 := app.BankKeeper.GetSupply(e.H.GetContext(), utils.BaseDenom).Amount.BigInt()
	var supply1 *big.Int
	e.afterDeliver = func() { supply1 = app.BankKeeper.GetSupply(e.H.GetContext(), utils.BaseDenom).Amount.BigInt() }
	seqSend0, _ := app.IBCKeeper.ChannelKeeper.GetNextSequenceSend(e.H.GetContext(), port, channel)
	allow0 := allowance()
	value := bigOf(c.Value)
	to, data := frame0, []byte(nil)
	if c.Shape == "direct" {
		to, data = pabi.ICS20Addr, calldata
	}
	res, vmErr := e.eth(to, value, data)
	e.afterDeliver = nil
	if res.Code != 0 {
		class("eth-tx-rejected")
		return
	}
	fee := new(big.Int).Mul(big.NewInt(res.GasUsed), e.price)
	txFailed := vmErr != ""
	// did the precompile call itself succeed?
	preOK := false
	switch c.Shape {
	case "direct":
		preOK = !txFailed
	case "via":
		preOK = !txFailed && app.EvmKeeper.GetState(e.H.GetContext(), frame0, evmasm.ResultSlot(0, 0)) == common.BigToHash(big.NewInt(2))
	}
	seqSend1, _ := app.IBCKeeper.ChannelKeeper.GetNextSequenceSend(e.H.GetContext(), port, channel)
	packets := int64(seqSend1) - int64(seqSend0)
	desc := fmt.Sprintf("%+v: tx vm error %q, precompile call ok=%v, packets sent %d", c, vmErr, preOK, packets)
	class(fmt.Sprintf("shape:%s:role=%s:ok=%v", c.Shape, c.Role, preOK))
	// what may have happened according to the property
	mayTransfer := true
	if c.Role == "origin" && c.Shape != "direct" && (limit.Sign() == 0 || limit.Cmp(amt) < 0) {
		mayTransfer = false // a contract moving origin's coins needs a live approval with a sufficient limit
	}
	if c.Role == "third" {
		mayTransfer = false // neither the signer nor the calling contract: its funds may not move, grant or no grant
		if d := new(big.Int).Sub(holdings(third.Hex), beforeH["third"]); d.Sign() != 0 {
			add("C04", "ics20-third-party-funds-moved", desc+fmt.Sprintf(": holdings of the named bystander changed by %s", d))
		}
	}
	if c.Shape == "child-reverts" || c.Shape == "tx-fails" || (c.Shape == "via" && !preOK) {
		// ---- C05: nothing of the transfer may remain ----
		c05key := "frame-revert-leak:ics20.transfer"
		if c.Shape == "tx-fails" {
			c05key = "failed-tx-leak:ics20.transfer"
		}
		if packets != 0 {
			add("C05", c05key, desc+": a packet was committed although the frame/transaction that sent it failed")
		}
		if d := new(big.Int).Sub(holdings(watch["escrow"]), beforeH["escrow"]); d.Sign() != 0 {
			add("C05", c05key, desc+fmt.Sprintf(": channel escrow changed by %s", d))
		}
		if a := allowance(); a.Cmp(allow0) != 0 {
			add("C05", c05key, desc+fmt.Sprintf(": the approval changed %s -> %s", allow0, a))
		}
	}
	if preOK && !mayTransfer {
		add("C04", "ics20-spend-without-approval", desc+fmt.Sprintf(": limit %s, amount %s", limit, amt))
	}
	if preOK && c.Role == "origin" && c.Shape == "via" && mayTransfer {
		if a := allowance(); new(big.Int).Sub(allow0, a).Cmp(amt) != 0 {
			add("C04", "ics20-allowance-not-reduced", desc+fmt.Sprintf(": approval %s -> %s after spending %s", allow0, a, amt))
		}
		nontrivial = true
	}
	// ---- C02: ledger of the native coin ----
	moved := new(big.Int)
	if preOK && denom == utils.BaseDenom {
		moved = amt
	}
	expected := map[string]*big.Int{"origin": new(big.Int).Neg(fee), "frame0": new(big.Int), "frame1": new(big.Int), "third": new(big.Int), "escrow": new(big.Int).Set(moved)}
	if !txFailed {
		expected["origin"].Sub(expected["origin"], value)
		expected["frame0"].Add(expected["frame0"], value)
	}
	who := "origin"
	if senderHex == frame0 {
		who = "frame0"
	} else if senderHex == frame1 {
		who = "frame1"
	} else if senderHex == third.Hex {
		who = "third"
	}
	expected[who].Sub(expected[who], moved)
	ledgerKey := ""
	for _, k := range []string{"origin", "frame0", "frame1", "third", "escrow"} {
		a := watch[k]
		got := new(big.Int).Sub(balOf(sdk.AccAddress(a.Bytes()), utils.BaseDenom), before[k])
		if got.Cmp(expected[k]) != 0 {
			key := "ics20-ledger:" + k + ":" + c.Shape
			switch {
			case c.Shape == "child-reverts", c.Shape == "via" && !preOK && !txFailed:
				// (a transfer that fails after the escrow step, e.g. for lack of any timeout, returns failure to the
				// calling contract; the escrow it already made stays)
				key = "failed-precompile-call-leaves-effects"
			case k == who && preOK && (value.Sign() > 0 || c.Role == "self"):
				key = "stale-overwrite:ics20.transfer:debit"
			}
			if ledgerKey == "" {
				ledgerKey = key
			}
			add("C02", key, desc+fmt.Sprintf(": native balance of %s changed by %s, expected %s", k, got, expected[k]))
		}
	}
	if d := new(big.Int).Sub(supply1, supply0); d.Sign() != 0 {
		key := "ics20-supply"
		if ledgerKey != "" {
			key = ledgerKey // the supply-level view of the same discrepancy
		}
		add("C02", key, desc+fmt.Sprintf(": total supply of the native coin changed by %s", d))
	}
	if preOK && (value.Sign() > 0 || c.Role == "self") {
		nontrivial = true
	}
	dPre := new(big.Int).Sub(holdings(e.origin.Hex), beforeH["origin"])
	if denom == utils.BaseDenom {
		dPre.Add(dPre, fee)
	}
	escPre := new(big.Int).Sub(holdings(watch["escrow"]), beforeH["escrow"])
	// relay what was sent, so that the channel is in a normal state for the native comparison
	if packets > 0 {
		evs := make(sdk.Events, 0, len(res.Events))
		for _, ev := range res.Events {
			evs = append(evs, sdk.Event(ev))
		}
		if packet, err := ibcgotesting.ParsePacketFromEvents(evs); err == nil {
			if why := e.relay(e.path.EndpointA, e.path.EndpointB, packet); why != "" {
				class("relay-pending")
			}
			e.sync()
		}
	}
	// ---- C16: the same transfer as a native message (only the owner-calls-directly shape is the property's subject) ----
	if c.Shape == "direct" {
		h0, esc0 := holdings(e.origin.Hex), holdings(watch["escrow"])
		amtN := amt
		if c.Amt == "balance+1" {
			amtN = new(big.Int).Add(h0, big.NewInt(1))
		}
		msg := transfertypes.NewMsgTransfer(port, channel, sdk.NewCoin(denom, sdk.NewIntFromBigInt(amtN)), e.origin.Addr.String(), receiver, tHeight, tStamp, "")
		feeN := big.NewInt(0)
		resN, errN := ibcDeliver(e.H, msg)
		if denom == utils.BaseDenom {
			feeN = big.NewInt(haqqibcFee)
		}
		okN := errN == nil
		if okN != preOK {
			add("C16", "outcome-differs:ics20.transfer", desc+fmt.Sprintf("; native MsgTransfer ok=%v (%v)", okN, errN))
		} else {
			dNat := new(big.Int).Add(new(big.Int).Sub(holdings(e.origin.Hex), h0), feeN)
			escNat := new(big.Int).Sub(holdings(watch["escrow"]), esc0)
			wantPre, wantNat := new(big.Int), new(big.Int)
			if preOK {
				wantPre, wantNat = new(big.Int).Neg(amt), new(big.Int).Neg(amtN)
			}
			if dPre.Cmp(wantPre) != 0 || dNat.Cmp(wantNat) != 0 || escPre.Cmp(new(big.Int).Neg(wantPre)) != 0 || escNat.Cmp(new(big.Int).Neg(wantNat)) != 0 {
				add("C16", "effect-differs:ics20.transfer", desc+fmt.Sprintf("; holdings precompile %s / native %s, escrow precompile %s / native %s", dPre, dNat, escPre, escNat))
			}
			if okN {
				if packet, err := ibcgotesting.ParsePacketFromEvents(resN.GetEvents()); err == nil {
					var d transfertypes.FungibleTokenPacketData
					must(transfertypes.ModuleCdc.UnmarshalJSON(packet.GetData(), &d))
					if d.Sender != e.origin.Addr.String() || d.Receiver != receiver || d.Denom != denom && c.Denom == "native" {
						add("C16", "packet-differs:ics20.transfer", desc+fmt.Sprintf("; native packet %+v", d))
					}
				}
				nontrivial = true
			} else {
				nontrivial = true
			}
		}
	}
	_ = channeltypes.Packet{}
	return
}

const haqqibcFee = int64(150_000_000_000_000_000)

// icsAllowances reads allowance(grantee, origin) and returns channel -> limit for the denomination.
func icsAllowances(e *icsEnv, grantee common.Address, denom string) map[string]*big.Int {
	out := map[string]*big.Int{}
	res, err := e.app.Erc20Keeper.CallEVMWithData(e.H.GetContext(), e.origin.Hex, &pabi.ICS20Addr, pabi.Pack("ics20", "allowance", grantee, e.origin.Hex), false)
	if err != nil {
		return out
	}
	vals, err := pabi.ABI("ics20").Unpack("allowance", res.Ret)
	if err != nil || len(vals) == 0 {
		return out
	}
	bz, _ := json.Marshal(vals[0])
	var raw []struct {
		SourceChannel string `json:"sourceChannel"`
		SpendLimit    []struct {
			Denom  string   `json:"denom"`
			Amount *big.Int `json:"amount"`
		} `json:"spendLimit"`
	}
	if json.Unmarshal(bz, &raw) != nil {
		return out
	}
	for _, a := range raw {
		for _, s := range a.SpendLimit {
			if s.Denom == denom {
				out[a.SourceChannel] = s.Amount
			}
		}
	}
	return out
}

type icsAlloc struct {
	Denom  string
	Amount *big.Int
}

// reflectAllocations flattens the ABI-decoded allowance() result (allocations with spend limits) into (denom, amount).
func reflectAllocations(v interface{}) []icsAlloc {
	bz, err := json.Marshal(v)
	if err != nil {
		return nil
	}
	var raw []struct {
		SpendLimit []struct {
			Denom  string   `json:"denom"`
			Amount *big.Int `json:"amount"`
		} `json:"spendLimit"`
	}
	if err := json.Unmarshal(bz, &raw); err != nil {
		return nil
	}
	var out []icsAlloc
	for _, a := range raw {
		for _, s := range a.SpendLimit {
			out = append(out, icsAlloc{s.Denom, s.Amount})
		}
	}
	return out
}

func runICSFor(prop string, st *ev.Stats, t *testing.T, c ICSCase) string {
	st.Eval()
	discs, nontrivial := runICS(t, c, func(s string) { st.Class(s) })
	for _, d := range discs {
		if d.Prop != prop {
			st.Class("other-property-discrepancy:" + d.Prop + ":" + d.Key)
			continue
		}
		if msg := st.Discrepancy(d.Key, d.What, c); msg != "" {
			return msg
		}
		st.Class("known:" + d.Key)
	}
	if nontrivial {
		st.NonTrivial(c)
	}
	return ""
}

const icsRule = "a Haqq chain and an ibc-go simapp chain with a real transfer channel; origin's Ethereum transaction reaches ics20.transfer directly / through a contract (sender = origin under an approval of generated limit, or sender = the contract) / in a callee frame that reverts / in a transaction that fails, with 0, 1 wei or 1 ISLM attached, amounts 1 .. balance+1, native or ERC20-origin denomination, valid or invalid receiver; then the same transfer as a native message; non-trivial = a successful transfer whose sender is EVM-dirty (value attached or the contract itself), a spend under a limited approval, or a direct call compared with the native message"

func init() {
	for _, pt := range [][2]string{{"C02", "TestC02_ICS20"}, {"C04", "TestC04_ICS20"}, {"C05", "TestC05_ICS20"}, {"C16", "TestC16_ICS20"}} {
		prop := pt[0]
		replayers[pt[1]] = func(st *ev.Stats, raw json.RawMessage) string {
			var c ICSCase
			must(json.Unmarshal(raw, &c))
			return runICSFor(prop, st, replayT, c)
		}
	}
}

func icsTest(t *testing.T, prop, name string, quick, thorough int) {
	st := ev.New(prop, name, icsRule)
	replayT = t
	runCorpus(t, st)
	runRapid(t, st, quick, thorough, func(rt *rapid.T) {
		if msg := runICSFor(prop, st, t, genICSCase(rt)); msg != "" {
			rt.Fatalf("%s", msg)
		}
	})
}

func TestC02_ICS20(t *testing.T) { icsTest(t, "C02", "TestC02_ICS20", 40, 2500) }
func TestC04_ICS20(t *testing.T) { icsTest(t, "C04", "TestC04_ICS20", 40, 2500) }
func TestC05_ICS20(t *testing.T) { icsTest(t, "C05", "TestC05_ICS20", 40, 2500) }
func TestC16_ICS20(t *testing.T) { icsTest(t, "C16", "TestC16_ICS20", 40, 2500) }
