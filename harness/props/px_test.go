package props

// Shared infrastructure for the precompile properties C02, C04, C05, C16: a prepared chain with delegations,
// accrued rewards, unbondings, custom withdraw addresses and staking grants; a generator of call-tree programs whose
// frames call the staking / distribution / bank precompiles; an executor that installs the program on a fork, sends
// one Ethereum transaction and reads back which inner calls succeeded.

import (
	"encoding/base64"

	"fmt"
	"github.com/cosmos/cosmos-sdk/crypto/keys/ed25519"
	stakingpc "github.com/haqq-network/haqq/precompiles/staking"
	"math/big"
	"sort"
	"strings"

	sdkmath "cosmossdk.io/math"
	sdk "github.com/cosmos/cosmos-sdk/types"
	authtypes "github.com/cosmos/cosmos-sdk/x/auth/types"
	"github.com/cosmos/cosmos-sdk/x/authz"
	banktypes "github.com/cosmos/cosmos-sdk/x/bank/types"
	distrtypes "github.com/cosmos/cosmos-sdk/x/distribution/types"
	stakingtypes "github.com/cosmos/cosmos-sdk/x/staking/types"
	"github.com/ethereum/go-ethereum/common"
	ethcrypto "github.com/ethereum/go-ethereum/crypto"
	vestingtypes "github.com/haqq-network/haqq/x/vesting/types"
	"pgregory.net/rapid"

	"verif/chain"
	"verif/evmasm"
	"verif/pabi"
	"verif/txb"
)

const pxFrames = 4

var (
	pxSigner = chain.Acct("px-signer")
	pxThird  = chain.Acct("px-third")
	pxW      = chain.Acct("px-withdraw")
	pxOther  = chain.Acct("px-other")
	pxFresh  = chain.Acct("px-fresh") // an existing account without native coins (it only holds 5 uxmpl): empty in the EVM's eyes
	pxGhost  = chain.Acct("px-ghost") // an address that has no account at all
	pxVest   = chain.Acct("px-vest")  // clawback vesting account: 1,000,000 ISLM free + 500,000 ISLM locked for five and unvested for ten years
)

var pxNewValKey = ed25519.GenPrivKeyFromSecret([]byte("px-new-validator"))

func pxFrameAcc(i int) sdk.AccAddress { return sdk.AccAddress(evmasm.FrameAddr(i).Bytes()) }

func pxVals(n *chain.Node) []stakingtypes.Validator {
	vals := n.App.StakingKeeper.GetAllValidators(n.Ctx())
	sort.Slice(vals, func(i, j int) bool { return vals[i].OperatorAddress < vals[j].OperatorAddress })
	return vals
}

// pxBase: 3 validators; signer/third/frames funded and delegating; signer has unbondings; rewards accrued over
// several fee-paying blocks (coinomics on); signer approved frames 0 and 1 for delegate/undelegate/redelegate with a
// limit; frame 2 has no grant.
func pxBase() *chain.Node {
	return baseChain("px", func() *chain.Node {
		h := History{NumVals: 4, Coinomics: true} // the validator that sorts last keeps only its self-delegation
		o := hOpts(h)
		o.Accounts = []chain.Account{pxSigner, pxThird, pxW, pxOther, pxVest}
		n := chain.NewNode(o)
		n.BeginBlock(chain.BlockIn{})
		ctx := n.Ctx()
		app := n.App
		vals := pxVals(n)
		must(app.BankKeeper.SendCoins(ctx, pxOther.Addr, pxFresh.Addr, sdk.NewCoins(sdk.NewCoin("uxmpl", sdkmath.NewInt(5)))))
		// fund the frame addresses and let them (and the third party) delegate: stands for earlier activity
		for i := 0; i < pxFrames; i++ {
			must(app.BankKeeper.SendCoins(ctx, pxOther.Addr, pxFrameAcc(i), sdk.NewCoins(islm(5000))))
			fresh, _ := app.StakingKeeper.GetValidator(ctx, vals[i%3].GetOperator()) // re-read: Delegate writes the struct it is given
			_, err := app.StakingKeeper.Delegate(ctx, pxFrameAcc(i), islm(1000).Amount, stakingtypes.Unbonded, fresh, true)
			must(err)
		}
		send := func(a chain.Account, msgs ...sdk.Msg) {
			num, seq := txb.AccInfo(n.Ctx(), app, a.Addr)
			bz := txb.CosmosTx(a, txb.Cosmos{Msgs: msgs, Gas: 900000, Fee: coinsOfGas(900000, gwei10), ChainID: chain.ChainID, AccNum: num, Seq: seq})
			if r := n.DeliverTx(bz); r.Code != 0 {
				panic("px prelude tx failed: " + r.Log)
			}
		}
		v := func(i int) sdk.ValAddress { return vals[i%3].GetOperator() }
		send(pxSigner, stakingtypes.NewMsgDelegate(pxSigner.Addr, v(0), islm(20000)), stakingtypes.NewMsgDelegate(pxSigner.Addr, v(1), islm(10000)))
		send(pxThird, stakingtypes.NewMsgDelegate(pxThird.Addr, v(0), islm(7000)), stakingtypes.NewMsgDelegate(pxThird.Addr, v(2), islm(3000)))
		send(pxSigner, stakingtypes.NewMsgUndelegate(pxSigner.Addr, v(0), islm(500)))
		send(pxThird, stakingtypes.NewMsgUndelegate(pxThird.Addr, v(0), islm(300)))
		send(pxThird, authzGrantSend(pxThird, pxOther))
		send(pxVest, stakingtypes.NewMsgDelegate(pxVest.Addr, v(1), islm(2000)))
		send(pxOther, vestingtypes.NewMsgConvertIntoVestingAccount(pxOther.Addr, pxVest.Addr, n.Header.Time,
			toPeriods([]PeriodJ{{Len: 5 * 365 * 86400, Amt: []CoinJ{{Denom: chain.Denom, Amt: "500000000000000000000000"}}}}),
			toPeriods([]PeriodJ{{Len: 10 * 365 * 86400, Amt: []CoinJ{{Denom: chain.Denom, Amt: "500000000000000000000000"}}}}), true, false, nil))
		{
			// a registered coin whose denomination sorts after the (unregistered) native one: the bank precompile must report it
			cctx, write := n.Ctx().CacheContext()
			_, err := app.Erc20Keeper.RegisterCoin(cctx, banktypes.Metadata{Description: "example coin", Base: "uxmpl", Display: "xmpl", Name: "uxmpl", Symbol: "XMPL",
				DenomUnits: []*banktypes.DenomUnit{{Denom: "uxmpl", Exponent: 0}, {Denom: "xmpl", Exponent: 6}}})
			must(err)
			write()
		}
		// staking approvals from the signer to frames 0 and 1 (through the precompile, as a user would)
		for _, f := range []int{0, 1} {
			num, seq := txb.AccInfo(n.Ctx(), app, pxSigner.Addr)
			_ = num
			to := pabi.StakingAddr
			data := pabi.Pack("staking", "approve", evmasm.FrameAddr(f), islm(int64(400*(f+1))).Amount.BigInt(),
				[]string{"/cosmos.staking.v1beta1.MsgDelegate", "/cosmos.staking.v1beta1.MsgUndelegate", "/cosmos.staking.v1beta1.MsgBeginRedelegate"})
			bz := txb.EthTx(pxSigner, txb.Eth{Type: 0, ChainID: big.NewInt(11235), Nonce: seq, To: &to, Value: big.NewInt(0), Gas: 900000, GasPrice: gwei10, Data: data})
			if r := n.DeliverTx(bz); r.Code != 0 {
				panic("px approve failed: " + r.Log)
			}
		}
		n.EndBlockCommit()
		// fee-paying blocks so that rewards accrue
		for b := 0; b < 4; b++ {
			n.BeginBlock(chain.BlockIn{Proposer: b})
			send(pxOther, banktypes.NewMsgSend(pxOther.Addr, pxW.Addr, sdk.NewCoins(islm(1))))
			// fees collected in a second denomination (as IBC-denominated fees would be): rewards hold two denominations
			must(app.BankKeeper.SendCoinsFromAccountToModule(n.Ctx(), pxOther.Addr, authtypes.FeeCollectorName, sdk.NewCoins(sdk.NewCoin("uxmpl", sdkmath.NewInt(3_000_000_000)))))
			n.EndBlockCommit()
		}
		if route, msg, broken := checkInvariants(n); broken {
			panic("px prelude breaks " + route + ": " + msg)
		}
		n.BeginBlock(chain.BlockIn{})
		return n
	})
}

func authzGrantSend(granter, grantee chain.Account) sdk.Msg {
	exp := chain.GenesisTime.AddDate(5, 0, 0)
	m, err := authz.NewMsgGrant(granter.Addr, grantee.Addr, banktypes.NewSendAuthorization(sdk.NewCoins(islm(5)), nil), &exp)
	must(err)
	return m
}

// ---- program generation ---------------------------------------------------------------------------------------

// PxPre describes a precompile call symbolically; it is turned into calldata against the chain's validator set.
type PxPre struct {
	Pre    string `json:"pre"`    // staking | distribution | bank
	Method string `json:"method"` // delegate | undelegate | redelegate | cancelUnbonding | withdraw | setWithdraw | claim | commission | balances | delegation
	Who    string `json:"who"`    // delegator argument: signer | self (the calling frame) | third
	Val    int    `json:"val"`
	Val2   int    `json:"val2"`
	Amt    string `json:"amt"` // milli-ISLM
	To     string `json:"to"`  // setWithdraw target: w | signer | self | third
}

type PxOp struct {
	evmasm.Op
	Pre *PxPre `json:"pre_call,omitempty"`
}

type PxFrame struct {
	Ops []PxOp `json:"ops"`
}

type PxProgram struct {
	Frames []PxFrame `json:"frames"`
	Direct *PxPre    `json:"direct,omitempty"` // if set: the tx calls the precompile directly from the EOA (no frames)
	Value  string    `json:"value"`            // tx value in wei
	SetW   bool      `json:"set_withdraw"`     // prelude step: the signer's withdraw address is set to W before the tx
	Create bool      `json:"create,omitempty"` // the tx is a contract creation whose init code is frame 0 (a constructor)
}

type pxGenOpts struct {
	Reverts    bool // allow frames to end in revert / invalid / out of gas
	CallKinds  []string
	PreMethods []string
	MaxFrames  int
}

var pxTxMethods = []string{"delegate", "delegate", "undelegate", "redelegate", "cancelUnbonding", "withdraw", "withdraw", "setWithdraw", "claim", "createValidator", "approve"}
var pxQueryMethods = []string{"balances", "delegation"}

func genPxPre(t *rapid.T, methods []string) *PxPre {
	p := &PxPre{Method: rapid.SampledFrom(methods).Draw(t, "method")}
	switch p.Method {
	case "delegate", "undelegate", "redelegate", "cancelUnbonding", "delegation", "createValidator", "approve":
		p.Pre = "staking"
	case "balances":
		p.Pre = "bank"
	default:
		p.Pre = "distribution"
	}
	p.Who = rapid.SampledFrom([]string{"signer", "signer", "self", "self", "third"}).Draw(t, "who")
	p.Val = rapid.IntRange(0, 2).Draw(t, "val")
	p.Val2 = rapid.IntRange(0, 2).Draw(t, "val2")
	p.Amt = rapid.SampledFrom([]string{"1", "1000", "100000", "399000", "400000", "401000", "800000", "801000", "5000000"}).Draw(t, "amt")
	p.To = rapid.SampledFrom([]string{"w", "w", "signer", "self", "third", "fresh", "ghost"}).Draw(t, "to")
	if p.Method == "createValidator" {
		p.Who = "signer" // only the transaction's origin may create its own validator
	}
	return p
}

func genPxProgram(t *rapid.T, o pxGenOpts) PxProgram {
	p := PxProgram{Value: rapid.SampledFrom([]string{"0", "0", "1", "1000000000000000000"}).Draw(t, "txvalue")}
	p.SetW = rapid.IntRange(0, 2).Draw(t, "setw") == 0
	if rapid.IntRange(0, 7).Draw(t, "direct") == 0 {
		p.Direct = genPxPre(t, o.PreMethods)
		p.Direct.Who = rapid.SampledFrom([]string{"signer", "signer", "third"}).Draw(t, "dwho")
		p.Value = "0"
		return p
	}
	nf := rapid.IntRange(1, o.MaxFrames).Draw(t, "nframes")
	used := map[int]bool{} // every frame is called at most once
	for i := 0; i < nf; i++ {
		f := PxFrame{}
		nops := rapid.IntRange(1, 5).Draw(t, "nops")
		for j := 0; j < nops; j++ {
			kinds := []string{"pre", "pre", "pre", "send", "sstore", "log"}
			var free []int
			for c := i + 1; c < nf; c++ {
				if !used[c] {
					free = append(free, c)
				}
			}
			if len(free) > 0 {
				kinds = append(kinds, "call", "call")
			}
			switch rapid.SampledFrom(kinds).Draw(t, "kind") {
			case "pre":
				pre := genPxPre(t, o.PreMethods)
				op := evmasm.Op{Kind: "pre", CallOp: rapid.SampledFrom(append([]string{"CALL", "CALL", "CALL"}, o.CallKinds...)).Draw(t, "precallop"),
					Value: rapid.SampledFrom([]string{"0", "0", "0", "1"}).Draw(t, "prevalue"), Note: pre.Pre + "." + pre.Method}
				f.Ops = append(f.Ops, PxOp{Op: op, Pre: pre})
			case "send":
				f.Ops = append(f.Ops, PxOp{Op: evmasm.Op{Kind: "send", Target: rapid.SampledFrom([]string{"signer", "third", "w", "frame0", "frame1", "frame2", "fresh", "ghost"}).Draw(t, "sendto"),
					Value: rapid.SampledFrom([]string{"1", "1000", "1000000000000000000", "0"}).Draw(t, "sendv")}})
			case "sstore":
				f.Ops = append(f.Ops, PxOp{Op: evmasm.Op{Kind: "sstore", Key: uint64(rapid.IntRange(0, 3).Draw(t, "key")), Val: uint64(rapid.IntRange(0, 2).Draw(t, "val"))}})
			case "log":
				f.Ops = append(f.Ops, PxOp{Op: evmasm.Op{Kind: "log", Key: uint64(j)}})
			case "call":
				c := free[rapid.IntRange(0, len(free)-1).Draw(t, "child")]
				used[c] = true
				for k := range free {
					_ = k
				}
				free = nil
				f.Ops = append(f.Ops, PxOp{Op: evmasm.Op{Kind: "call", CallOp: rapid.SampledFrom(append([]string{"CALL", "CALL"}, o.CallKinds...)).Draw(t, "callop"), Child: c,
					Value:  rapid.SampledFrom([]string{"0", "1", "2000000000000000000"}).Draw(t, "callv"),
					GasCap: uint64(rapid.SampledFrom([]int{0, 0, 0, 0, 200000}).Draw(t, "gascap"))}})
			}
		}
		if o.Reverts && i > 0 {
			switch rapid.IntRange(0, 5).Draw(t, "end") {
			case 0, 1:
				f.Ops = append(f.Ops, PxOp{Op: evmasm.Op{Kind: "revert"}})
			case 2:
				f.Ops = append(f.Ops, PxOp{Op: evmasm.Op{Kind: "invalid"}})
			}
		}
		p.Frames = append(p.Frames, f)
	}
	if rapid.IntRange(0, 9).Draw(t, "touch-scenario") == 0 {
		// an account that is empty in the EVM's eyes (no native coins, no code, nonce 0) is touched by a zero-value call, then receives coins on the Cosmos side
		// (it becomes the withdraw address and rewards are withdrawn to it), all in one transaction
		who := rapid.SampledFrom([]string{"self", "signer"}).Draw(t, "touch-who")
		v := rapid.IntRange(0, 2).Draw(t, "touch-val")
		// (the touched account either exists without native coins, or does not exist at all)
		tgt := rapid.SampledFrom([]string{"fresh", "ghost"}).Draw(t, "touch-target")
		pre := []PxOp{{Op: evmasm.Op{Kind: "send", Target: tgt, Value: "0"}},
			{Op: evmasm.Op{Kind: "pre", CallOp: "CALL", Value: "0", Note: "distribution.setWithdraw"}, Pre: &PxPre{Pre: "distribution", Method: "setWithdraw", Who: who, To: tgt, Amt: "1"}},
			{Op: evmasm.Op{Kind: "pre", CallOp: "CALL", Value: "0", Note: "distribution.withdraw"}, Pre: &PxPre{Pre: "distribution", Method: "withdraw", Who: who, Val: v, Amt: "1"}}}
		if rapid.Bool().Draw(t, "touch-then-pay") {
			// ...and afterwards receives value from the EVM as well
			pre = append(pre, PxOp{Op: evmasm.Op{Kind: "send", Target: tgt, Value: "9"}})
			if p.Value == "0" {
				p.Value = "1000000000000000000"
			}
		}
		p.Frames[0].Ops = append(pre, p.Frames[0].Ops...)
	}
	// drop frames that are never called (keeps the case small)
	return p
}

// ---- resolution against the chain -----------------------------------------------------------------------------

func pxAddrOf(name string, self common.Address) common.Address {
	switch {
	case name == "signer":
		return pxSigner.Hex
	case name == "third":
		return pxThird.Hex
	case name == "w":
		return pxW.Hex
	case name == "fresh":
		return pxFresh.Hex
	case name == "ghost":
		return pxGhost.Hex
	case name == "self":
		return self
	case strings.HasPrefix(name, "frame"):
		return evmasm.FrameAddr(int(name[5] - '0'))
	}
	return common.HexToAddress(name)
}

// pxCalldata packs the precompile call; self = address of the calling context.
func pxCalldata(n *chain.Node, p *PxPre, self common.Address) (common.Address, []byte) {
	vals := pxVals(n)
	val := vals[p.Val%len(vals)].OperatorAddress
	val2 := vals[p.Val2%len(vals)].OperatorAddress
	who := pxAddrOf(p.Who, self)
	amt := milli(p.Amt)
	switch p.Method {
	case "delegate":
		return pabi.StakingAddr, pabi.Pack("staking", "delegate", who, val, amt)
	case "undelegate":
		return pabi.StakingAddr, pabi.Pack("staking", "undelegate", who, val, amt)
	case "redelegate":
		return pabi.StakingAddr, pabi.Pack("staking", "redelegate", who, val, val2, amt)
	case "cancelUnbonding":
		h := int64(1)
		if ubd, found := n.App.StakingKeeper.GetUnbondingDelegation(n.Ctx(), sdk.AccAddress(who.Bytes()), vals[p.Val%len(vals)].GetOperator()); found && len(ubd.Entries) > 0 {
			h = ubd.Entries[0].CreationHeight
		}
		return pabi.StakingAddr, pabi.Pack("staking", "cancelUnbondingDelegation", who, val, amt, big.NewInt(h))
	case "delegation":
		return pabi.StakingAddr, pabi.Pack("staking", "delegation", who, val)
	case "createValidator":
		one := func(s string) *big.Int { return sdkmath.LegacyMustNewDecFromStr(s).BigInt() }
		return pabi.StakingAddr, pabi.Pack("staking", "createValidator",
			stakingpc.Description{Moniker: "px", Identity: "", Website: "", SecurityContact: "", Details: ""},
			stakingpc.Commission{Rate: one("0.10"), MaxRate: one("0.20"), MaxChangeRate: one("0.01")},
			big.NewInt(1), who, sdk.ValAddress(who.Bytes()).String(), base64.StdEncoding.EncodeToString(pxNewValKey.PubKey().Bytes()), amt)
	case "approve":
		// the owner (who) lets the address named by To delegate/undelegate up to amt on its behalf
		return pabi.StakingAddr, pabi.Pack("staking", "approve", pxAddrOf(p.To, self), amt, []string{"/cosmos.staking.v1beta1.MsgDelegate", "/cosmos.staking.v1beta1.MsgUndelegate"})
	case "withdraw":
		return pabi.DistributionAddr, pabi.Pack("distribution", "withdrawDelegatorRewards", who, val)
	case "setWithdraw":
		return pabi.DistributionAddr, pabi.Pack("distribution", "setWithdrawAddress", who, sdk.AccAddress(pxAddrOf(p.To, self).Bytes()).String())
	case "claim":
		return pabi.DistributionAddr, pabi.Pack("distribution", "claimRewards", who, uint32(5))
	case "commission":
		return pabi.DistributionAddr, pabi.Pack("distribution", "withdrawValidatorCommission", val)
	case "balances":
		return pabi.BankAddr, pabi.Pack("bank", "balances", who)
	}
	panic("unknown precompile method " + p.Method)
}

// pxCompile resolves the symbolic program into an evmasm.Program. ctxOf[i] is the address in whose context frame i
// runs (its own address for CALL, the caller's context for DELEGATECALL/CALLCODE).
func pxCompile(n *chain.Node, p PxProgram) (evmasm.Program, []common.Address) {
	ctxOf := make([]common.Address, len(p.Frames))
	for i := range ctxOf {
		ctxOf[i] = evmasm.FrameAddr(i)
	}
	if p.Create && len(ctxOf) > 0 {
		_, seq := txb.AccInfo(n.Ctx(), n.App, pxSigner.Addr)
		ctxOf[0] = ethcrypto.CreateAddress(pxSigner.Hex, seq)
	}
	// contexts: resolve top-down (children have larger indices)
	for i, f := range p.Frames {
		for _, op := range f.Ops {
			if op.Kind == "call" && (op.CallOp == "DELEGATECALL" || op.CallOp == "CALLCODE") {
				ctxOf[op.Child] = ctxOf[i]
			}
		}
	}
	out := evmasm.Program{}
	for i, f := range p.Frames {
		fr := evmasm.Frame{}
		for _, op := range f.Ops {
			o := op.Op
			switch o.Kind {
			case "pre":
				addr, data := pxCalldata(n, op.Pre, ctxOf[i])
				o.Target, o.Data = addr.Hex(), fmt.Sprintf("%x", data)
			case "send":
				o.Target = pxAddrOf(o.Target, ctxOf[i]).Hex()
			}
			fr.Ops = append(fr.Ops, o)
		}
		out.Frames = append(out.Frames, fr)
	}
	return out, ctxOf
}

// ---- execution ------------------------------------------------------------------------------------------------

type pxResult struct {
	Code     uint32
	Log      string
	GasUsed  int64
	VmError  string
	Flags    map[[2]int]int // (frame, op) -> -1 not reached, 0 failed, 1 succeeded
	Prog     evmasm.Program
	CtxOf    []common.Address
	Fee      *big.Int
	TxValue  *big.Int
	TxFailed bool // the Ethereum message itself failed (vm error) although the tx was included
}

// pxPrepare applies the case's prelude steps on a fork (inside its open block) and installs the program.
func pxPrepare(n *chain.Node, p PxProgram) (evmasm.Program, []common.Address) {
	if p.SetW {
		num, seq := txb.AccInfo(n.Ctx(), n.App, pxSigner.Addr)
		bz := txb.CosmosTx(pxSigner, txb.Cosmos{Msgs: []sdk.Msg{distrtypes.NewMsgSetWithdrawAddress(pxSigner.Addr, pxW.Addr)}, Gas: 300000, Fee: coinsOfGas(300000, gwei10), ChainID: chain.ChainID, AccNum: num, Seq: seq})
		if r := n.DeliverTx(bz); r.Code != 0 {
			panic("set withdraw address failed: " + r.Log)
		}
	}
	prog, ctxOf := pxCompile(n, p)
	for i, code := range prog.Compile() {
		if p.Create && i == 0 {
			continue // runs as init code of the creating transaction
		}
		n.InstallCode(evmasm.FrameAddr(i), code)
	}
	return prog, ctxOf
}

func pxTxBytes(n *chain.Node, p PxProgram) ([]byte, *big.Int) {
	_, seq := txb.AccInfo(n.Ctx(), n.App, pxSigner.Addr)
	to := evmasm.FrameAddr(0)
	var data []byte
	if p.Direct != nil {
		to, data = pxCalldata(n, p.Direct, pxSigner.Hex)
	}
	value := bigOf(p.Value)
	if p.Create && p.Direct == nil {
		prog, _ := pxCompile(n, p)
		return txb.EthTx(pxSigner, txb.Eth{Type: 0, ChainID: big.NewInt(11235), Nonce: seq, To: nil, Value: value, Gas: 5000000, GasPrice: gwei10, Data: prog.Compile()[0]}), value
	}
	return txb.EthTx(pxSigner, txb.Eth{Type: 0, ChainID: big.NewInt(11235), Nonce: seq, To: &to, Value: value, Gas: 5000000, GasPrice: gwei10, Data: data}), value
}

func pxRun(n *chain.Node, p PxProgram) pxResult {
	prog, ctxOf := pxPrepare(n, p)
	bz, value := pxTxBytes(n, p)
	res := n.DeliverTx(bz)
	out := pxResult{Code: res.Code, Log: res.Log, GasUsed: res.GasUsed, Flags: map[[2]int]int{}, Prog: prog, CtxOf: ctxOf, TxValue: value}
	out.Fee = new(big.Int).Mul(big.NewInt(res.GasUsed), gwei10)
	if res.Code == 0 {
		if r, err := decodeEthResponse(res.Data); err == nil {
			out.VmError = r
			out.TxFailed = r != ""
		}
	}
	for i, f := range prog.Frames {
		for j, op := range f.Ops {
			if op.Kind == "pre" || op.Kind == "call" || op.Kind == "send" {
				v := n.Storage(ctxOf[i], evmasm.ResultSlot(i, j)).Big().Int64()
				out.Flags[[2]int{i, j}] = int(v) - 1
			}
		}
	}
	return out
}

// pxSnapshot captures everything the oracles compare for a set of accounts.
type pxAccountState struct {
	Balance  string
	Dels     string
	Ubds     string
	Reds     string
	Withdraw string
	Grants   string
}

func pxAccount(n *chain.Node, addr sdk.AccAddress) pxAccountState {
	ctx := n.Ctx()
	app := n.App
	s := pxAccountState{Balance: app.BankKeeper.GetBalance(ctx, addr, chain.Denom).Amount.String()}
	for _, d := range app.StakingKeeper.GetDelegatorDelegations(ctx, addr, 1000) {
		s.Dels += d.ValidatorAddress + "=" + d.Shares.String() + ";"
	}
	for _, u := range app.StakingKeeper.GetUnbondingDelegations(ctx, addr, 1000) {
		for _, e := range u.Entries {
			s.Ubds += fmt.Sprintf("%s@%d=%s;", u.ValidatorAddress, e.CreationHeight, e.Balance)
		}
	}
	for _, r := range app.StakingKeeper.GetRedelegations(ctx, addr, 1000) {
		for _, e := range r.Entries {
			s.Reds += fmt.Sprintf("%s>%s@%d=%s;", r.ValidatorSrcAddress, r.ValidatorDstAddress, e.CreationHeight, e.InitialBalance)
		}
	}
	s.Withdraw = app.DistrKeeper.GetDelegatorWithdrawAddr(ctx, addr).String()
	res, err := app.AuthzKeeper.GranterGrants(sdk.WrapSDKContext(ctx), &authz.QueryGranterGrantsRequest{Granter: addr.String()})
	if err == nil {
		for _, g := range res.Grants {
			s.Grants += g.Grantee + ":" + g.Authorization.TypeUrl + ":" + fmt.Sprintf("%x", g.Authorization.Value) + ";"
		}
	}
	return s
}

func pxAllAccounts() map[string]sdk.AccAddress {
	m := map[string]sdk.AccAddress{"signer": pxSigner.Addr, "third": pxThird.Addr, "w": pxW.Addr, "other": pxOther.Addr, "fresh": pxFresh.Addr, "ghost": pxGhost.Addr,
		"staking-precompile": sdk.AccAddress(pabi.StakingAddr.Bytes()), "distribution-precompile": sdk.AccAddress(pabi.DistributionAddr.Bytes()),
		"bonded-pool": authtypes.NewModuleAddress(stakingtypes.BondedPoolName), "not-bonded-pool": authtypes.NewModuleAddress(stakingtypes.NotBondedPoolName),
		"distribution": authtypes.NewModuleAddress(distrtypes.ModuleName), "fee-collector": authtypes.NewModuleAddress(authtypes.FeeCollectorName),
		"evm-module": authtypes.NewModuleAddress("evm"), "bank-precompile": sdk.AccAddress(pabi.BankAddr.Bytes())}
	for i := 0; i < pxFrames; i++ {
		m[fmt.Sprintf("frame%d", i)] = pxFrameAcc(i)
	}
	return m
}

var _ = sdkmath.Int{}
