package props

// Differential check of plain EVM execution against vanilla go-ethereum (refevm): generated call trees (CALL /
// DELEGATECALL / CALLCODE / STATICCALL, value transfers incl. the whole balance, reverts, invalid opcodes, gas-capped
// subtrees, self-destructs, read-only precompile calls that flush the StateDB in the middle of a frame, frames that do
// or do not write after a call) are installed on a fork and driven by 1-3 Ethereum transactions through DeliverTx; the
// same message runs in go-ethereum's own StateDB from the same pre-state. Compared after every transaction:
//   C02: native balance of every involved account (the signer modulo the fee), total supply change
//   C05: outcome, contract storage, code (self-destruct), logs

import (
	"encoding/json"
	"fmt"
	"math/big"
	"sort"
	"testing"

	sdk "github.com/cosmos/cosmos-sdk/types"
	authtypes "github.com/cosmos/cosmos-sdk/x/auth/types"
	"github.com/ethereum/go-ethereum/common"
	ethcrypto "github.com/ethereum/go-ethereum/crypto"
	"pgregory.net/rapid"

	"verif/chain"
	"verif/ev"
	"verif/evmasm"
	"verif/pabi"
	"verif/refevm"
	"verif/txb"

	evmtypes "github.com/haqq-network/haqq/x/evm/types"
)

type RefTx struct {
	To    int    `json:"to"` // frame index
	Value string `json:"value"`
	Gas   uint64 `json:"gas"`
}

type RefCase struct {
	Prog evmasm.Program `json:"prog"`
	Fund []string       `json:"fund"` // bank balance of each frame before the first transaction
	Txs  []RefTx        `json:"txs"`
}

var (
	refSigner = chain.Acct("ref-signer")
	refThird  = chain.Acct("ref-third")
	refFunder = chain.Acct("ref-funder")
	refFresh1 = common.HexToAddress("0xf4e5000000000000000000000000000000000001")
	refFresh2 = common.HexToAddress("0xf4e5000000000000000000000000000000000002")
	// refNativePre: a stateless Ethereum precompile (identity): value sent to it stays there like in any account
	refNativePre = common.HexToAddress("0x0000000000000000000000000000000000000004")
)

const refFrames = 4

func refBase() *chain.Node {
	return baseChain("ref", func() *chain.Node {
		o := hOpts(History{NumVals: 2})
		o.Accounts = []chain.Account{refSigner, refThird, refFunder}
		n := chain.NewNode(o)
		n.BeginBlock(chain.BlockIn{})
		n.EndBlockCommit()
		return n
	})
}

func refTargets(self int) []string {
	t := []string{refSigner.Hex.Hex(), refThird.Hex.Hex(), refFresh1.Hex(), refFresh2.Hex(), refNativePre.Hex(), evmasm.FrameAddr(self).Hex()}
	for i := 0; i < refFrames; i++ {
		t = append(t, evmasm.FrameAddr(i).Hex())
	}
	return t
}

func genRefCase(t *rapid.T) RefCase {
	c := RefCase{}
	nf := rapid.IntRange(1, refFrames).Draw(t, "nframes")
	withQueries := rapid.IntRange(0, 2).Draw(t, "queries") == 0
	values := []string{"0", "0", "1", "1000", "1000000000000000000"}
	// with precompile queries in the program, plain sends (2300 gas stipend) go to accounts without code only: whether a
	// precompile call fits into the stipend depends on gas rules the reference EVM does not have
	targets := func(self int) []string {
		if withQueries {
			return []string{refSigner.Hex.Hex(), refThird.Hex.Hex(), refFresh1.Hex(), refFresh2.Hex(), refNativePre.Hex()}
		}
		return refTargets(self)
	}
	for i := 0; i < nf; i++ {
		f := evmasm.Frame{}
		nops := rapid.IntRange(1, 5).Draw(t, "nops")
		for j := 0; j < nops; j++ {
			kinds := []string{"send", "send", "sstore", "sstore", "log", "create"}
			if i+1 < nf {
				kinds = append(kinds, "call", "call", "call")
			}
			if withQueries {
				kinds = append(kinds, "pre", "pre")
			} else {
				kinds = append(kinds, "burn")
			}
			switch rapid.SampledFrom(kinds).Draw(t, "kind") {
			case "call":
				op := evmasm.Op{Kind: "call", Child: rapid.IntRange(i+1, nf-1).Draw(t, "child"),
					CallOp: rapid.SampledFrom([]string{"CALL", "CALL", "CALL", "DELEGATECALL", "CALLCODE", "STATICCALL"}).Draw(t, "callop"),
					Value:  rapid.SampledFrom(values).Draw(t, "callv"), NoRecord: rapid.IntRange(0, 2).Draw(t, "norec") == 0}
				op.ValueAll = rapid.IntRange(0, 5).Draw(t, "all") == 0
				if !withQueries {
					op.GasCap = uint64(rapid.SampledFrom([]int{0, 0, 0, 2300, 30000}).Draw(t, "gascap"))
				}
				f.Ops = append(f.Ops, op)
			case "send":
				op := evmasm.Op{Kind: "send", Target: rapid.SampledFrom(targets(i)).Draw(t, "sendto"), Value: rapid.SampledFrom(values).Draw(t, "sendv"),
					NoRecord: rapid.IntRange(0, 2).Draw(t, "norec") == 0, ValueAll: rapid.IntRange(0, 4).Draw(t, "all") == 0}
				f.Ops = append(f.Ops, op)
			case "sstore":
				f.Ops = append(f.Ops, evmasm.Op{Kind: "sstore", Key: uint64(rapid.IntRange(0, 3).Draw(t, "key")), Val: uint64(rapid.IntRange(0, 2).Draw(t, "val"))})
			case "create":
				f.Ops = append(f.Ops, genRefCreate(t))
			case "log":
				f.Ops = append(f.Ops, evmasm.Op{Kind: "log", Key: uint64(10*i + j)})
			case "burn":
				f.Ops = append(f.Ops, evmasm.Op{Kind: "burn", Loop: uint64(rapid.SampledFrom([]int{1, 50, 2000}).Draw(t, "loop"))})
			case "pre":
				// read-only precompile calls: bank.totalSupply() / staking.validators-free query; they flush the StateDB
				q := rapid.SampledFrom([]string{"bank.totalSupply", "bank.balances", "staking.delegation"}).Draw(t, "query")
				op := evmasm.Op{Kind: "pre", CallOp: rapid.SampledFrom([]string{"CALL", "STATICCALL"}).Draw(t, "precallop"), Value: "0", Note: q,
					NoRecord: rapid.IntRange(0, 2).Draw(t, "norec") == 0}
				switch q {
				case "bank.totalSupply":
					op.Target, op.Data = pabi.BankAddr.Hex(), fmt.Sprintf("%x", pabi.Pack("bank", "totalSupply"))
				case "bank.balances":
					op.Target, op.Data = pabi.BankAddr.Hex(), fmt.Sprintf("%x", pabi.Pack("bank", "balances", refSigner.Hex))
				default:
					op.Target, op.Data = pabi.StakingAddr.Hex(), fmt.Sprintf("%x", pabi.Pack("staking", "delegation", refSigner.Hex, sdk.ValAddress(chain.ValOp(0).Addr).String()))
				}
				f.Ops = append(f.Ops, op)
			}
		}
		endRange := 7
		if i == 0 {
			endRange = 19 // the entry frame fails less often: a failing transaction exercises little
		}
		switch rapid.IntRange(0, endRange).Draw(t, "end") {
		case 0, 1:
			f.Ops = append(f.Ops, evmasm.Op{Kind: "revert"})
		case 2:
			f.Ops = append(f.Ops, evmasm.Op{Kind: "invalid"})
		case 3:
			f.Ops = append(f.Ops, evmasm.Op{Kind: "selfdestruct", Target: rapid.SampledFrom(targets(i)).Draw(t, "heir")})
		}
		c.Prog.Frames = append(c.Prog.Frames, f)
		c.Fund = append(c.Fund, rapid.SampledFrom([]string{"0", "0", "1", "100", "3000000000000000000"}).Draw(t, "fund"))
	}
	// second entry points: a frame may be re-entered (from any depth, also by itself or by a later frame) with another body
	for i := 0; i < nf; i++ {
		if rapid.IntRange(0, 2).Draw(t, "alt") != 0 {
			continue
		}
		na := rapid.IntRange(1, 3).Draw(t, "nalt")
		for j := 0; j < na; j++ {
			switch rapid.SampledFrom([]string{"sstore", "sstore", "send", "log", "selfdestruct", "revert"}).Draw(t, "altkind") {
			case "sstore":
				c.Prog.Frames[i].Alt = append(c.Prog.Frames[i].Alt, evmasm.Op{Kind: "sstore", Key: uint64(rapid.IntRange(0, 3).Draw(t, "akey")), Val: uint64(rapid.IntRange(0, 2).Draw(t, "aval"))})
			case "send":
				c.Prog.Frames[i].Alt = append(c.Prog.Frames[i].Alt, evmasm.Op{Kind: "send", Target: rapid.SampledFrom(targets(i)).Draw(t, "asendto"), Value: rapid.SampledFrom(values).Draw(t, "asendv"), NoRecord: rapid.Bool().Draw(t, "anorec")})
			case "log":
				c.Prog.Frames[i].Alt = append(c.Prog.Frames[i].Alt, evmasm.Op{Kind: "log", Key: uint64(100 + 10*i + j)})
			case "selfdestruct":
				c.Prog.Frames[i].Alt = append(c.Prog.Frames[i].Alt, evmasm.Op{Kind: "selfdestruct", Target: rapid.SampledFrom(targets(i)).Draw(t, "aheir")})
				j = na
			case "revert":
				c.Prog.Frames[i].Alt = append(c.Prog.Frames[i].Alt, evmasm.Op{Kind: "revert"})
				j = na
			}
		}
		// somebody calls it: a random position in a random frame's main body
		from := rapid.IntRange(0, nf-1).Draw(t, "alt-from")
		call := evmasm.Op{Kind: "call", Child: i, Alt: true, CallOp: rapid.SampledFrom([]string{"CALL", "CALL", "DELEGATECALL", "STATICCALL"}).Draw(t, "alt-callop"),
			Value: rapid.SampledFrom([]string{"0", "0", "1"}).Draw(t, "alt-value"), NoRecord: rapid.Bool().Draw(t, "alt-norec")}
		ops := c.Prog.Frames[from].Ops
		at := rapid.IntRange(0, len(ops)).Draw(t, "alt-at")
		if at < len(ops) {
			switch ops[len(ops)-1].Kind {
			case "revert", "invalid", "selfdestruct":
				if at == len(ops) {
					at--
				}
			}
		} else if len(ops) > 0 {
			switch ops[len(ops)-1].Kind {
			case "revert", "invalid", "selfdestruct":
				at = len(ops) - 1
			}
		}
		c.Prog.Frames[from].Ops = append(append(append([]evmasm.Op{}, ops[:at]...), call), ops[at:]...)
	}
	if nf >= 2 && rapid.IntRange(0, 2).Draw(t, "reentry-scenario") == 0 {
		// P does something that survives, calls Q (possibly handing over its whole balance); Q re-enters P through P's
		// second entry point (which writes, sends or self-destructs) and then fails or not; P carries on
		pI := rapid.IntRange(0, nf-2).Draw(t, "re-p")
		qI := rapid.IntRange(pI+1, nf-1).Draw(t, "re-q")
		var alt []evmasm.Op
		if rapid.Bool().Draw(t, "re-alt-writes") {
			alt = append(alt, evmasm.Op{Kind: "sstore", Key: uint64(rapid.IntRange(0, 3).Draw(t, "re-ak")), Val: uint64(rapid.IntRange(0, 2).Draw(t, "re-av"))})
		}
		switch rapid.IntRange(0, 5).Draw(t, "re-alt-end") {
		case 0, 1:
			alt = append(alt, evmasm.Op{Kind: "selfdestruct", Target: rapid.SampledFrom(targets(pI)).Draw(t, "re-heir")})
		case 2:
			alt = append(alt, evmasm.Op{Kind: "send", Target: rapid.SampledFrom(targets(pI)).Draw(t, "re-to"), Value: "1", NoRecord: true})
		case 3, 4:
			alt = append(alt, evmasm.Op{Kind: "revert"}) // the re-entered contract refuses (and is caught by Q)
		}
		if len(alt) == 0 {
			alt = []evmasm.Op{{Kind: "log", Key: 7}}
		}
		c.Prog.Frames[pI].Alt = alt
		// (Q's very first action may be to pay part of what it just received back to its caller)
		q := []evmasm.Op{{Kind: "call", Child: pI, Alt: true, CallOp: rapid.SampledFrom([]string{"CALL", "CALL", "DELEGATECALL"}).Draw(t, "re-callop"),
			Value: rapid.SampledFrom([]string{"0", "1", "1"}).Draw(t, "re-qvalue"), NoRecord: rapid.Bool().Draw(t, "re-qnorec")}}
		if rapid.Bool().Draw(t, "re-q-writes") {
			q = append(q, evmasm.Op{Kind: "sstore", Key: 1, Val: 2})
		}
		switch rapid.IntRange(0, 3).Draw(t, "re-q-end") {
		case 0, 1:
			q = append(q, evmasm.Op{Kind: "revert"})
		case 2:
			q = append(q, evmasm.Op{Kind: "invalid"})
		}
		c.Prog.Frames[qI].Ops = q
		var pOps []evmasm.Op
		if rapid.Bool().Draw(t, "re-p-writes") {
			pOps = append(pOps, evmasm.Op{Kind: "sstore", Key: uint64(rapid.IntRange(0, 3).Draw(t, "re-pk")), Val: 1})
		}
		pOps = append(pOps, evmasm.Op{Kind: "call", Child: qI, CallOp: "CALL", Value: rapid.SampledFrom([]string{"0", "1"}).Draw(t, "re-pv"), ValueAll: rapid.Bool().Draw(t, "re-pall"), NoRecord: rapid.Bool().Draw(t, "re-pnorec")})
		if rapid.Bool().Draw(t, "re-p-after") {
			pOps = append(pOps, evmasm.Op{Kind: "sstore", Key: 3, Val: 2})
		}
		c.Prog.Frames[pI].Ops = pOps
	}
	if withQueries && nf >= 2 && rapid.IntRange(0, 1).Draw(t, "flush-scenario") == 0 {
		// a frame writes, calls a read-only precompile (which flushes the StateDB), writes again and fails; its parent
		// (which may share the storage context) catches the failure and carries on
		child := rapid.IntRange(1, nf-1).Draw(t, "fs-child")
		q := evmasm.Op{Kind: "pre", CallOp: "STATICCALL", Target: pabi.BankAddr.Hex(), Data: fmt.Sprintf("%x", pabi.Pack("bank", "totalSupply")), Value: "0", Note: "bank.totalSupply", NoRecord: true}
		body := []evmasm.Op{{Kind: "sstore", Key: uint64(rapid.IntRange(0, 3).Draw(t, "fs-k1")), Val: uint64(rapid.IntRange(1, 2).Draw(t, "fs-v1"))}, q}
		if rapid.IntRange(0, 1).Draw(t, "fs-create") == 0 {
			// the frame that will fail creates a contract before it queries: its nonce moves and a new account appears
			body = append([]evmasm.Op{genRefCreate(t)}, body...)
		}
		if rapid.Bool().Draw(t, "fs-after") {
			body = append(body, evmasm.Op{Kind: "sstore", Key: uint64(rapid.IntRange(0, 3).Draw(t, "fs-k2")), Val: uint64(rapid.IntRange(0, 2).Draw(t, "fs-v2"))})
		}
		if rapid.Bool().Draw(t, "fs-send") {
			body = append(body, evmasm.Op{Kind: "send", Target: rapid.SampledFrom(targets(child)).Draw(t, "fs-to"), Value: "1", NoRecord: true})
		}
		body = append(body, evmasm.Op{Kind: rapid.SampledFrom([]string{"revert", "invalid"}).Draw(t, "fs-end")})
		c.Prog.Frames[child].Ops = body
		parent := rapid.IntRange(0, child-1).Draw(t, "fs-parent")
		call := evmasm.Op{Kind: "call", Child: child, CallOp: rapid.SampledFrom([]string{"CALL", "DELEGATECALL", "CALLCODE"}).Draw(t, "fs-callop"),
			Value: rapid.SampledFrom([]string{"0", "1"}).Draw(t, "fs-value"), NoRecord: rapid.Bool().Draw(t, "fs-norec")}
		pre := []evmasm.Op{}
		if rapid.Bool().Draw(t, "fs-parent-writes") {
			pre = append(pre, evmasm.Op{Kind: "sstore", Key: uint64(rapid.IntRange(0, 3).Draw(t, "fs-pk")), Val: 1})
		}
		if c.Prog.Frames[child].Ops[0].Kind == "create" && rapid.IntRange(0, 2).Draw(t, "fs-create-shared") > 0 {
			// the creating frame runs in its parent's context, and the parent has changes of its own that survive
			pre = append(pre, evmasm.Op{Kind: "sstore", Key: 2, Val: 1})
			call.CallOp = rapid.SampledFrom([]string{"DELEGATECALL", "CALLCODE"}).Draw(t, "fs-ccallop")
		}
		if rapid.IntRange(0, 2).Draw(t, "fs-double") == 0 {
			// the same slot is flushed twice with different values: the parent writes it and queries a precompile, the
			// child (sharing the parent's storage through DELEGATECALL/CALLCODE) overwrites it, queries and fails
			w := 0
			for c.Prog.Frames[child].Ops[w].Kind != "sstore" {
				w++
			}
			k, v1 := c.Prog.Frames[child].Ops[w].Key, uint64(rapid.IntRange(1, 2).Draw(t, "fs-dv1"))
			c.Prog.Frames[child].Ops[w].Val = []uint64{0, 3 - v1}[rapid.IntRange(0, 1).Draw(t, "fs-dv2")]
			pre = append(pre, evmasm.Op{Kind: "sstore", Key: k, Val: v1}, q)
			call.CallOp = rapid.SampledFrom([]string{"DELEGATECALL", "CALLCODE"}).Draw(t, "fs-dcallop")
		}
		ops := append(pre, call)
		if rapid.Bool().Draw(t, "fs-twice") {
			ops = append(ops, call)
		}
		c.Prog.Frames[parent].Ops = append(ops, c.Prog.Frames[parent].Ops...)
		if n := len(c.Prog.Frames[0].Ops); n > 0 {
			switch c.Prog.Frames[0].Ops[n-1].Kind {
			case "revert", "invalid":
				c.Prog.Frames[0].Ops = c.Prog.Frames[0].Ops[:n-1] // let the transaction succeed
			}
		}
	}
	if rapid.IntRange(0, 5).Draw(t, "prefund-create-scenario") == 0 {
		// a frame pays into the address its next CREATE2 will produce, then creates there with an endowment; the init
		// code reverts, or the creating frame fails afterwards and its parent carries on
		i := rapid.IntRange(0, nf-1).Draw(t, "pc-frame")
		salt, mode := uint64(rapid.IntRange(0, 1).Draw(t, "pc-salt")), uint64(rapid.SampledFrom([]int{0, 0, 1, 2}).Draw(t, "pc-mode"))
		target := ethcrypto.CreateAddress2(evmasm.FrameAddr(i), common.BigToHash(new(big.Int).SetUint64(salt)), ethcrypto.Keccak256(evmasm.CreateInit(int(mode))))
		ops := []evmasm.Op{{Kind: "send", Target: target.Hex(), Value: rapid.SampledFrom([]string{"1", "5", "1000"}).Draw(t, "pc-fund"), NoRecord: true},
			{Kind: "create", CallOp: "CREATE2", Key: salt, Val: mode, Value: rapid.SampledFrom([]string{"0", "7", "1000"}).Draw(t, "pc-endow"), NoRecord: rapid.Bool().Draw(t, "pc-norec")}}
		if i > 0 && rapid.Bool().Draw(t, "pc-revert") {
			ops = append(ops, evmasm.Op{Kind: "revert"})
			c.Prog.Frames[i].Ops = ops
		} else {
			c.Prog.Frames[i].Ops = append(ops, c.Prog.Frames[i].Ops...)
		}
		if c.Fund[i] == "0" || c.Fund[i] == "1" {
			c.Fund[i] = "3000000000000000000"
		}
	}
	ntx := rapid.IntRange(1, 3).Draw(t, "ntx")
	for k := 0; k < ntx; k++ {
		c.Txs = append(c.Txs, RefTx{To: rapid.IntRange(0, nf-1).Draw(t, "to") * rapid.IntRange(0, 1).Draw(t, "entry0"), Value: rapid.SampledFrom(values).Draw(t, "txvalue"),
			Gas: uint64(rapid.SampledFrom([]int{3000000, 3000000, 3000000, 60000, 120000}).Draw(t, "gas"))})
	}
	return c
}

func genRefCreate(t *rapid.T) evmasm.Op {
	op := evmasm.Op{Kind: "create", Val: uint64(rapid.IntRange(0, 2).Draw(t, "create-init")), Value: "0", NoRecord: rapid.IntRange(0, 2).Draw(t, "create-norec") == 0}
	if rapid.IntRange(0, 2).Draw(t, "create2") == 0 {
		op.CallOp, op.Key = "CREATE2", uint64(rapid.IntRange(0, 1).Draw(t, "salt"))
	}
	return op
}

type refDisc struct {
	Prop string // C02 | C05
	Key  string
	What string
}

// runRef executes the case and returns every disagreement with the reference, in order.
func runRef(c RefCase, class func(string)) (discs []refDisc, nontrivial bool) {
	n := refBase().Fork()
	n.BeginBlock(chain.BlockIn{})
	app := n.App
	codes := c.Prog.Compile()
	hasPre := false
	for i, code := range codes {
		n.InstallCode(evmasm.FrameAddr(i), code)
		if amt := bigOf(c.Fund[i]); amt.Sign() > 0 {
			must(app.BankKeeper.SendCoins(n.Ctx(), refFunder.Addr, sdk.AccAddress(evmasm.FrameAddr(i).Bytes()), sdk.NewCoins(sdk.NewCoin(chain.Denom, sdkInt(amt)))))
		}
		for _, op := range append(append([]evmasm.Op{}, c.Prog.Frames[i].Ops...), c.Prog.Frames[i].Alt...) {
			hasPre = hasPre || op.Kind == "pre"
		}
	}
	stipendBoundPre := false
	{
		preFrames := map[common.Address]bool{}
		for i, f := range c.Prog.Frames {
			for _, op := range f.Ops {
				if op.Kind == "pre" {
					preFrames[evmasm.FrameAddr(i)] = true
				}
			}
		}
		for _, f := range c.Prog.Frames {
			for _, op := range append(append([]evmasm.Op{}, f.Ops...), f.Alt...) {
				if (op.Kind == "send" || op.Kind == "selfdestruct") && preFrames[common.HexToAddress(op.Target)] {
					stipendBoundPre = true
				}
				if op.Kind == "call" && op.GasCap > 0 {
					stipendBoundPre = stipendBoundPre || hasPre
				}
			}
		}
	}
	// destructibleCtx[a]: some code that can execute in a's context (its own, or reached from it through
	// DELEGATECALL / CALLCODE) contains a SELFDESTRUCT
	destructibleCtx := map[common.Address]bool{}
	{
		reach := func(i int) map[int]bool {
			out := map[int]bool{i: true}
			for changed := true; changed; {
				changed = false
				for k := range out {
					for _, op := range append(append([]evmasm.Op{}, c.Prog.Frames[k].Ops...), c.Prog.Frames[k].Alt...) {
						if op.Kind == "call" && (op.CallOp == "DELEGATECALL" || op.CallOp == "CALLCODE") && !out[op.Child] {
							out[op.Child] = true
							changed = true
						}
					}
				}
			}
			return out
		}
		for i := range c.Prog.Frames {
			for k := range reach(i) {
				for _, op := range append(append([]evmasm.Op{}, c.Prog.Frames[k].Ops...), c.Prog.Frames[k].Alt...) {
					if op.Kind == "selfdestruct" {
						destructibleCtx[evmasm.FrameAddr(i)] = true
					}
				}
			}
		}
	}
	// every slot a program can write, in every storage context
	var slots []common.Hash
	for k := 0; k < 4; k++ {
		slots = append(slots, common.BigToHash(big.NewInt(int64(k))))
	}
	for i, f := range c.Prog.Frames {
		for j := range f.Ops {
			slots = append(slots, evmasm.ResultSlot(i, j))
		}
		for j := range f.Alt {
			slots = append(slots, evmasm.ResultSlot(i, evmasm.AltBase+j))
		}
	}
	watched := []common.Address{refSigner.Hex, refThird.Hex, refFresh1, refFresh2, refNativePre}
	for i := 0; i < refFrames; i++ { // also the frame addresses this program does not populate: they are possible targets
		watched = append(watched, evmasm.FrameAddr(i))
	}
	coinbase := common.HexToAddress("0xc01bbace00000000000000000000000000000000")
	evmParams := app.EvmKeeper.GetParams(n.Ctx())
	var eips []int
	for _, e := range evmParams.ExtraEIPs {
		eips = append(eips, int(e))
	}
	bal := func(a common.Address) *big.Int { return n.Balance(sdk.AccAddress(a.Bytes())) }
	codeOf := func(a common.Address) []byte {
		acc := app.EvmKeeper.GetAccountWithoutBalance(n.Ctx(), a)
		if acc == nil {
			return nil
		}
		return app.EvmKeeper.GetCode(n.Ctx(), common.BytesToHash(acc.CodeHash))
	}
	price := gwei10
	hasCreate := false
	for _, f := range c.Prog.Frames {
		for _, op := range append(append([]evmasm.Op{}, f.Ops...), f.Alt...) {
			hasCreate = hasCreate || op.Kind == "create"
		}
	}
	isCreated := map[common.Address]bool{}
	for k, tx := range c.Txs {
		if hasCreate {
			// every address a create op of this transaction can produce: CREATE from a frame's next few nonces, CREATE2
			// with the generator's salts and init codes (they stay watched in later transactions)
			for i := 0; i < refFrames; i++ {
				fa := evmasm.FrameAddr(i)
				n0 := app.EvmKeeper.GetNonce(n.Ctx(), fa)
				var cands []common.Address
				for d := uint64(0); d < 4; d++ {
					cands = append(cands, ethcrypto.CreateAddress(fa, n0+d))
				}
				for salt := 0; salt < 2; salt++ {
					for mode := 0; mode < 3; mode++ {
						cands = append(cands, ethcrypto.CreateAddress2(fa, common.BigToHash(big.NewInt(int64(salt))), ethcrypto.Keccak256(evmasm.CreateInit(mode))))
					}
				}
				for _, a := range cands {
					if !isCreated[a] {
						isCreated[a] = true
						watched = append(watched, a)
					}
				}
			}
		}
		// ---- pre-state, read from the chain ----
		pre := map[common.Address]refevm.Account{}
		absent := map[common.Address]bool{} // no account record before this transaction
		total := new(big.Int)
		for _, a := range watched {
			absent[a] = app.AccountKeeper.GetAccount(n.Ctx(), sdk.AccAddress(a.Bytes())) == nil
			acc := refevm.Account{Balance: bal(a), Storage: map[common.Hash]common.Hash{}}
			total.Add(total, acc.Balance)
			acc.Nonce = app.EvmKeeper.GetNonce(n.Ctx(), a)
			if code := codeOf(a); len(code) > 0 {
				acc.Code = code
				for _, s := range slots {
					if v := n.Storage(a, s); v != (common.Hash{}) {
						acc.Storage[s] = v
					}
				}
			}
			pre[a] = acc
		}
		_, seq := txb.AccInfo(n.Ctx(), app, refSigner.Addr)
		s := pre[refSigner.Hex]
		s.Nonce = seq
		pre[refSigner.Hex] = s
		supply0 := n.Supply()
		to := evmasm.FrameAddr(tx.To)
		value := bigOf(tx.Value)
		// ---- chain ----
		res := n.DeliverTx(txb.EthTx(refSigner, txb.Eth{Type: 0, ChainID: big.NewInt(11235), Nonce: seq, To: &to, Value: value, Gas: tx.Gas, GasPrice: price}))
		if res.Code != 0 {
			class("tx-rejected")
			continue
		}
		txRes, err := evmtypes.DecodeTxResponse(res.Data)
		must(err)
		// ---- reference ----
		rr := refevm.Apply(pre, refevm.Msg{From: refSigner.Hex, To: &to, Nonce: seq, Value: value, GasLimit: tx.Gas, GasPrice: price, FeeCap: price, TipCap: price},
			refevm.Env{ChainConfig: evmParams.ChainConfig.EthereumConfig(big.NewInt(11235)), ExtraEips: eips, BlockNumber: n.Header.Height, Time: uint64(n.Header.Time.Unix()), BaseFee: big.NewInt(0), GasLimit: 1 << 50, Coinbase: coinbase})
		if rr.Err != nil {
			discs = append(discs, refDisc{"C05", "ref-outcome:reference-refused", fmt.Sprintf("tx %d accepted by the chain but refused by the reference: %v", k, rr.Err)})
			return
		}
		refLogs := rr.State.Logs()
		rr.State.Finalise(true)
		if hasPre && stipendBoundPre {
			// a frame that calls a precompile is reached through a plain value send (2300 gas stipend): whether that call
			// fits depends on the precompile's own gas schedule, which the reference EVM does not have
			class("skipped:precompile-call-under-gas-stipend")
			return
		}
		if hasPre && (uint64(res.GasUsed) > tx.Gas/2 || tx.Gas < 3000000) {
			// gas differs by construction when a precompile is called; only compare runs that are nowhere near the limit
			class("skipped:query-precompile-near-gas-limit")
			return
		}
		desc := fmt.Sprintf("tx %d (to frame %d, value %s, gas %d; vm error %q, reference failed=%v %v)", k, tx.To, tx.Value, tx.Gas, txRes.VmError, rr.Failed, rr.VMErr)
		if (txRes.VmError != "") != rr.Failed {
			discs = append(discs, refDisc{"C05", "ref-outcome", desc})
			return
		}
		if rr.Failed {
			class("tx-failed-in-both")
		} else {
			class("tx-succeeded-in-both")
		}
		// The listed flush finding: a precompile call (even a query) commits the StateDB mid-transaction; if the frame
		// then fails and the journal revert leaves the account without any surviving entry, the final Commit never
		// visits it and the flushed value stays. An account whose reference post-state differs from its pre-state has
		// surviving entries, is visited and restored: a disagreement there is not that finding.
		untouchedInRef := func(a common.Address) bool {
			p := pre[a]
			if a == refSigner.Hex {
				// the signer pays the fee outside the EVM and its nonce is bumped by the ante handler: inside the EVM it
				// is untouched iff nothing but the fee left or reached it
				return new(big.Int).Add(rr.State.GetBalance(a), new(big.Int).Mul(new(big.Int).SetUint64(rr.UsedGas), price)).Cmp(p.Balance) == 0
			}
			if p.Balance.Cmp(rr.State.GetBalance(a)) != 0 || (len(p.Code) > 0) != (len(rr.State.GetCode(a)) > 0) || p.Nonce != rr.State.GetNonce(a) {
				return false
			}
			for _, s := range slots {
				if p.Storage[s] != rr.State.GetState(a, s) {
					return false
				}
			}
			return true
		}
		flushKey := func(a common.Address, base, what string) string {
			if hasPre && untouchedInRef(a) {
				return "flush-then-revert:" + what + "-of-undirtied-account"
			}
			if hasPre && destructibleCtx[a] && len(rr.State.GetCode(a)) > 0 {
				// a third face: a SELFDESTRUCT executed in this account's context inside a frame that flushed (the flush
				// deletes the account's code and storage from the stores) and then failed; the journal resurrects the
				// account, but the final Commit skips slots it believes are already stored
				return "flush-then-revert:" + what + "-after-flushed-selfdestruct"
			}
			if hasPre && absent[a] {
				// the other face of the same finding: an account first created inside a frame that flushed and then
				// failed loses its state object in the revert; when it is touched again later in the transaction it is
				// re-loaded from the store, i.e. with the flushed value
				return "flush-then-revert:" + what + "-of-account-created-in-reverted-frame"
			}
			return base
		}
		knownFlush := false
		// C02: balances
		feeChain := new(big.Int).Mul(big.NewInt(res.GasUsed), price)
		feeRef := new(big.Int).Mul(new(big.Int).SetUint64(rr.UsedGas), price)
		refTotal := new(big.Int).Set(rr.State.GetBalance(coinbase))
		for _, a := range watched {
			got, want := bal(a), rr.State.GetBalance(a)
			refTotal.Add(refTotal, want)
			if a == refSigner.Hex {
				got = new(big.Int).Add(got, feeChain)
				want = new(big.Int).Add(want, feeRef)
			}
			if got.Cmp(want) != 0 {
				who := "frame"
				switch a {
				case refSigner.Hex:
					who = "signer"
				case refThird.Hex:
					who = "eoa"
				case refFresh1, refFresh2:
					who = "fresh-address"
				case refNativePre:
					who = "native-precompile-address"
				}
				key := flushKey(a, "ref-balance:"+who, "balance")
				knownFlush = knownFlush || key != "ref-balance:"+who
				discs = append(discs, refDisc{"C02", key, fmt.Sprintf("%s: balance of %s is %s, reference %s (fees added back for the signer)", desc, a.Hex(), got, want)})
				// (a balance change that should have been undone with its frame is also C05's matter)
				discs = append(discs, refDisc{"C05", key, fmt.Sprintf("%s: balance of %s is %s, reference %s (fees added back for the signer)", desc, a.Hex(), got, want)})
			}
		}
		if dChain, dRef := new(big.Int).Sub(n.Supply(), supply0), new(big.Int).Sub(refTotal, total); dChain.Cmp(dRef) != 0 {
			key := "ref-supply"
			if knownFlush {
				key = "flush-then-revert:supply" // consequence of the balance that stayed
			}
			discs = append(discs, refDisc{"C02", key, fmt.Sprintf("%s: total supply changed by %s, reference (sum over all involved accounts and the fee recipient) by %s", desc, dChain, dRef)})
		}
		// C05: storage, code, logs
		for i := range codes {
			a := evmasm.FrameAddr(i)
			for _, s := range slots {
				if got, want := n.Storage(a, s), rr.State.GetState(a, s); got != want {
					discs = append(discs, refDisc{"C05", flushKey(a, "ref-storage", "storage"), fmt.Sprintf("%s: storage %s[%s] = %s, reference %s", desc, a.Hex(), s.Hex()[58:], got.Hex()[58:], want.Hex()[58:])})
				}
			}
			if got, want := len(codeOf(a)) > 0, len(rr.State.GetCode(a)) > 0; got != want {
				discs = append(discs, refDisc{"C05", flushKey(a, "ref-code", "code"), fmt.Sprintf("%s: %s has code=%v, reference %v", desc, a.Hex(), got, want)})
			}
		}
		// nonces (a CREATE moves the creator's) and the accounts create ops may have produced
		for _, a := range watched {
			if a == refSigner.Hex {
				continue
			}
			if got, want := app.EvmKeeper.GetNonce(n.Ctx(), a), rr.State.GetNonce(a); got != want {
				discs = append(discs, refDisc{"C05", flushKey(a, "ref-nonce", "nonce"), fmt.Sprintf("%s: nonce of %s is %d, reference %d", desc, a.Hex(), got, want)})
			}
			if !isCreated[a] {
				continue
			}
			if got, want := len(codeOf(a)) > 0, len(rr.State.GetCode(a)) > 0; got != want {
				discs = append(discs, refDisc{"C05", flushKey(a, "ref-code:created", "code"), fmt.Sprintf("%s: created address %s has code=%v, reference %v", desc, a.Hex(), got, want)})
			}
			s1 := common.BigToHash(big.NewInt(1))
			if got, want := n.Storage(a, s1), rr.State.GetState(a, s1); got != want {
				discs = append(discs, refDisc{"C05", flushKey(a, "ref-storage:created", "storage"), fmt.Sprintf("%s: created address %s slot 1 = %s, reference %s", desc, a.Hex(), got.Hex()[58:], want.Hex()[58:])})
			}
		}
		logDigest := func(addr common.Address, topics []common.Hash) string { return addr.Hex() + ":" + fmt.Sprint(topics) }
		var gotLogs, wantLogs []string
		for _, l := range txRes.Logs {
			var ts []common.Hash
			for _, t := range l.Topics {
				ts = append(ts, common.HexToHash(t))
			}
			gotLogs = append(gotLogs, logDigest(common.HexToAddress(l.Address), ts))
		}
		if !rr.Failed {
			for _, l := range refLogs {
				wantLogs = append(wantLogs, logDigest(l.Address, l.Topics))
			}
		}
		if fmt.Sprint(gotLogs) != fmt.Sprint(wantLogs) {
			discs = append(discs, refDisc{"C05", "ref-logs", fmt.Sprintf("%s: logs %v, reference %v", desc, gotLogs, wantLogs)})
		}
		if len(discs) > 0 {
			return
		}
		// what made this transaction interesting
		for i, f := range c.Prog.Frames {
			for j, op := range f.Ops {
				if (op.Kind == "call" || op.Kind == "send") && !op.NoRecord && !rr.Failed {
					if rr.State.GetState(evmasm.FrameAddr(i), evmasm.ResultSlot(i, j)) == common.BigToHash(big.NewInt(1)) {
						class("inner-call-failed-tx-succeeded")
						nontrivial = true
					}
				}
				if op.ValueAll {
					class("whole-balance-transfer")
				}
			}
		}
		for i := range codes {
			if len(pre[evmasm.FrameAddr(i)].Code) > 0 && len(rr.State.GetCode(evmasm.FrameAddr(i))) == 0 {
				class("self-destructed")
				nontrivial = true
			}
		}
		if hasPre {
			class("with-mid-frame-flush")
		}
	}
	_ = authtypes.ModuleName
	_ = sort.Strings
	return
}

func sdkInt(v *big.Int) sdk.Int { return sdk.NewIntFromBigInt(v) }

func runRefFor(prop string, st *ev.Stats, c RefCase) string {
	st.Eval()
	discs, nontrivial := runRef(c, func(s string) { st.Class(s) })
	for _, d := range discs {
		if d.Prop != prop {
			st.Class("other-property-discrepancy:" + d.Key)
			continue
		}
		if msg := st.Discrepancy(d.Key, d.What, c); msg != "" {
			return msg
		}
		st.Class("known:" + d.Key)
	}
	if nontrivial && len(discs) == 0 {
		st.NonTrivial(c)
	}
	return ""
}

func init() {
	for _, pt := range [][2]string{{"C02", "TestC02_Reference"}, {"C05", "TestC05_Reference"}} {
		prop := pt[0]
		replayers[pt[1]] = func(st *ev.Stats, raw json.RawMessage) string {
			var c RefCase
			must(json.Unmarshal(raw, &c))
			return runRefFor(prop, st, c)
		}
	}
}

const refRule = "1-4 generated contracts (CALL/DELEGATECALL/CALLCODE/STATICCALL trees, value and whole-balance transfers to EOAs / fresh addresses / contracts, storage writes, logs, gas-capped subtrees, revert / invalid / self-destruct endings, optional read-only precompile calls that flush the StateDB mid-frame, frames that do or do not write after a call) with 0-3 ISLM of prior bank balance, driven by 1-3 transactions; every transaction is also executed by vanilla go-ethereum from the same pre-state; non-trivial = an inner call failed while the transaction succeeded, or a contract self-destructed"

func TestC02_Reference(t *testing.T) {
	st := ev.New("C02", "TestC02_Reference", refRule+"; compared: bank balance of every involved account (signer modulo fee), total supply change")
	runCorpus(t, st)
	runRapid(t, st, 1200, 30000, func(rt *rapid.T) {
		if msg := runRefFor("C02", st, genRefCase(rt)); msg != "" {
			rt.Fatalf("%s", msg)
		}
	})
}

func TestC05_Reference(t *testing.T) {
	st := ev.New("C05", "TestC05_Reference", refRule+"; compared: success/failure, contract storage, code after self-destruct, logs")
	runCorpus(t, st)
	runRapid(t, st, 1200, 30000, func(rt *rapid.T) {
		if msg := runRefFor("C05", st, genRefCase(rt)); msg != "" {
			rt.Fatalf("%s", msg)
		}
	})
}
