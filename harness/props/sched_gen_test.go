package props

// Shared generators and the reference step-function model for vesting schedules (C08, C09, C11).
// The reference works on ABSOLUTE event lists (time -> coins) with math/big, not on relative period lists.

import (
	"math/big"
	"sort"

	sdkmath "cosmossdk.io/math"
	sdk "github.com/cosmos/cosmos-sdk/types"
	sdkvesting "github.com/cosmos/cosmos-sdk/x/auth/vesting/types"
	"pgregory.net/rapid"
)

type CoinJ struct {
	Denom string `json:"d"`
	Amt   string `json:"a"`
}

type PeriodJ struct {
	Len int64   `json:"len"`
	Amt []CoinJ `json:"amt"`
}

type SchedJ struct {
	Start   int64     `json:"start"`
	Periods []PeriodJ `json:"periods"`
}

func (p PeriodJ) coins() sdk.Coins {
	var c sdk.Coins
	for _, x := range p.Amt {
		a, ok := sdkmath.NewIntFromString(x.Amt)
		if !ok {
			panic("bad amount " + x.Amt)
		}
		c = c.Add(sdk.NewCoin(x.Denom, a))
	}
	if c == nil {
		c = sdk.Coins{}
	}
	return c
}

func toPeriods(ps []PeriodJ) sdkvesting.Periods {
	out := make(sdkvesting.Periods, 0, len(ps))
	for _, p := range ps {
		out = append(out, sdkvesting.Period{Length: p.Len, Amount: p.coins()})
	}
	return out
}

func fromPeriods(ps sdkvesting.Periods) []PeriodJ {
	out := []PeriodJ{}
	for _, p := range ps {
		pj := PeriodJ{Len: p.Length}
		for _, c := range p.Amount {
			pj.Amt = append(pj.Amt, CoinJ{c.Denom, c.Amount.String()})
		}
		out = append(out, pj)
	}
	return out
}

var schedDenoms = []string{"aISLM", "aLIQUID3", "uatom"}

var amountPool = []string{"1", "2", "3", "7", "10", "99", "100", "1000", "123456789", "1000000000000000000", "999999999999999999999",
	"340282366920938463463374607431768211455", "1606938044258990275541962092341162602522202993782792835301376"} // ..., 2^128-1, 2^200

var lengthPool = []int64{0, 0, 1, 1, 2, 3, 10, 60, 3600, 86400, 2592000, 31536000, 63072000}

func genAmount(t *rapid.T, label string) string {
	if rapid.IntRange(0, 3).Draw(t, label+"-pool") > 0 {
		return rapid.SampledFrom(amountPool).Draw(t, label)
	}
	return big.NewInt(rapid.Int64Range(1, 1<<40).Draw(t, label)).String()
}

// genPeriods draws 0..maxN periods; zeroLen allows zero-length periods; nDenoms limits denominations;
// emptyAmt allows periods that carry no coins (reachable through liquid-vesting splits).
func genPeriods(t *rapid.T, label string, minN, maxN int, zeroLen bool, nDenoms int, emptyAmt bool) []PeriodJ {
	n := rapid.IntRange(minN, maxN).Draw(t, label+"-n")
	out := []PeriodJ{}
	for i := 0; i < n; i++ {
		p := PeriodJ{}
		for {
			p.Len = rapid.SampledFrom(lengthPool).Draw(t, label+"-len")
			if p.Len > 0 || zeroLen {
				break
			}
			p.Len = 1
			break
		}
		for d := 0; d < nDenoms; d++ {
			pick := rapid.IntRange(0, 3).Draw(t, label+"-has")
			if d == 0 && pick == 0 && !emptyAmt {
				pick = 1
			}
			if d > 0 && pick < 2 {
				continue
			}
			if pick == 0 {
				continue
			}
			p.Amt = append(p.Amt, CoinJ{schedDenoms[d], genAmount(t, label+"-amt")})
		}
		out = append(out, p)
	}
	return out
}

// ---- reference model ---------------------------------------------------------------------------------------

type refCoins map[string]*big.Int

func (c refCoins) clone() refCoins {
	o := refCoins{}
	for k, v := range c {
		o[k] = new(big.Int).Set(v)
	}
	return o
}

func (c refCoins) add(o refCoins) refCoins {
	r := c.clone()
	for k, v := range o {
		r[k] = new(big.Int).Add(bi(r, k), v)
	}
	return r
}

func (c refCoins) sub(o refCoins) refCoins {
	r := c.clone()
	for k, v := range o {
		r[k] = new(big.Int).Sub(bi(r, k), v)
	}
	return r
}

func (c refCoins) min(o refCoins) refCoins {
	r := refCoins{}
	for k, v := range c {
		w := bi(o, k)
		if v.Cmp(w) < 0 {
			r[k] = new(big.Int).Set(v)
		} else {
			r[k] = new(big.Int).Set(w)
		}
	}
	return r
}

func (c refCoins) max(o refCoins) refCoins {
	r := c.clone()
	for k, w := range o {
		if bi(r, k).Cmp(w) < 0 {
			r[k] = new(big.Int).Set(w)
		}
	}
	return r
}

func (c refCoins) anyNegative() bool {
	for _, v := range c {
		if v.Sign() < 0 {
			return true
		}
	}
	return false
}

func (c refCoins) isZero() bool {
	for _, v := range c {
		if v.Sign() != 0 {
			return false
		}
	}
	return true
}

func (c refCoins) eq(o refCoins) bool {
	for k, v := range c {
		if v.Cmp(bi(o, k)) != 0 {
			return false
		}
	}
	for k, v := range o {
		if v.Cmp(bi(c, k)) != 0 {
			return false
		}
	}
	return true
}

func (c refCoins) String() string { return refToSDK(c).String() }

func refOf(c sdk.Coins) refCoins {
	r := refCoins{}
	for _, x := range c {
		r[x.Denom] = new(big.Int).Add(bi(r, x.Denom), x.Amount.BigInt())
	}
	return r
}

func refToSDK(c refCoins) sdk.Coins {
	var out sdk.Coins
	for d, v := range c {
		if v.Sign() > 0 {
			out = append(out, sdk.NewCoin(d, sdkmath.NewIntFromBigInt(v)))
		}
	}
	return out.Sort()
}

func eqSDK(c refCoins, s sdk.Coins) bool { return c.eq(refOf(s)) }

// refEvent is one release event at an absolute time.
type refEvent struct {
	T   int64
	Amt refCoins
}

// eventsOf turns (start, relative periods) into absolute events.
func eventsOf(start int64, ps []PeriodJ) []refEvent {
	var out []refEvent
	t := start
	for _, p := range ps {
		t += p.Len
		out = append(out, refEvent{T: t, Amt: refOf(p.coins())})
	}
	return out
}

// stepAt is the reference step function: the sum of all events ended by t, zero up to (and including) start.
func stepAt(start int64, evs []refEvent, t int64) refCoins {
	r := refCoins{}
	if t <= start {
		return r
	}
	for _, e := range evs {
		if e.T <= t {
			r = r.add(e.Amt)
		}
	}
	return r
}

func totalOf(evs []refEvent) refCoins {
	r := refCoins{}
	for _, e := range evs {
		r = r.add(e.Amt)
	}
	return r
}

func lastTime(start int64, evs []refEvent) int64 {
	t := start
	for _, e := range evs {
		if e.T > t {
			t = e.T
		}
	}
	return t
}

// probeTimes returns every event time ±1 plus the given extras, sorted and unique.
func probeTimes(extra []int64, lists ...[]refEvent) []int64 {
	m := map[int64]bool{}
	for _, x := range extra {
		m[x-1], m[x], m[x+1] = true, true, true
	}
	for _, l := range lists {
		for _, e := range l {
			m[e.T-1], m[e.T], m[e.T+1] = true, true, true
		}
	}
	var out []int64
	for k := range m {
		out = append(out, k)
	}
	sort.Slice(out, func(i, j int) bool { return out[i] < out[j] })
	return out
}

// eventMap merges events at the same time (the union as a map time -> coins), dropping empty amounts.
func eventMap(lists ...[]refEvent) map[int64]refCoins {
	m := map[int64]refCoins{}
	for _, l := range lists {
		for _, e := range l {
			if cur, ok := m[e.T]; ok {
				m[e.T] = cur.add(e.Amt)
			} else {
				m[e.T] = e.Amt.clone()
			}
		}
	}
	for k, v := range m {
		if v.isZero() {
			delete(m, k)
		}
	}
	return m
}
