// Package refevm executes a message in vanilla go-ethereum (in-memory StateDB, core.ApplyMessage) so that the gas an
// Ethereum transaction consumes after refunds can be compared with what haqq's own StateDB / state transition report.
// It is a differential reference: same interpreter, independent state database, access-list, refund and
// committed-state implementation.
package refevm

import (
	"math/big"

	"github.com/ethereum/go-ethereum/common"
	"github.com/ethereum/go-ethereum/core"
	"github.com/ethereum/go-ethereum/core/rawdb"
	"github.com/ethereum/go-ethereum/core/state"
	ethtypes "github.com/ethereum/go-ethereum/core/types"
	"github.com/ethereum/go-ethereum/core/vm"
	"github.com/ethereum/go-ethereum/params"
)

// Account is the pre-state of one account.
type Account struct {
	Code    []byte
	Storage map[common.Hash]common.Hash
	Balance *big.Int
	Nonce   uint64
}

type Msg struct {
	From     common.Address
	To       *common.Address
	Nonce    uint64
	Value    *big.Int
	GasLimit uint64
	GasPrice *big.Int // effective price
	FeeCap   *big.Int
	TipCap   *big.Int
	Data     []byte
	Access   ethtypes.AccessList
}

type Env struct {
	ChainConfig *params.ChainConfig
	ExtraEips   []int
	BlockNumber int64
	Time        uint64
	BaseFee     *big.Int
	GasLimit    uint64
	Coinbase    common.Address
}

type Result struct {
	UsedGas uint64 // after refunds
	Failed  bool
	Err     error // consensus-level error (tx invalid)
	VMErr   error
	State   *state.StateDB
}

// Apply runs the full go-ethereum state transition of one message on the given pre-state.
func Apply(pre map[common.Address]Account, m Msg, env Env) Result {
	db := state.NewDatabase(rawdb.NewMemoryDatabase())
	st, err := state.New(common.Hash{}, db, nil)
	if err != nil {
		panic(err)
	}
	for addr, a := range pre {
		st.CreateAccount(addr)
		if a.Code != nil {
			st.SetCode(addr, a.Code)
		}
		for k, v := range a.Storage {
			st.SetState(addr, k, v)
		}
		if a.Balance != nil {
			st.SetBalance(addr, a.Balance)
		}
		st.SetNonce(addr, a.Nonce)
	}
	// commit so that "original" storage values (EIP-2200/3529 gas) are the pre-state values
	root, err := st.Commit(false)
	if err != nil {
		panic(err)
	}
	st, err = state.New(root, db, nil)
	if err != nil {
		panic(err)
	}
	blockCtx := vm.BlockContext{
		CanTransfer: core.CanTransfer,
		Transfer:    core.Transfer,
		GetHash:     func(uint64) common.Hash { return common.Hash{} },
		Coinbase:    env.Coinbase,
		GasLimit:    env.GasLimit,
		BlockNumber: big.NewInt(env.BlockNumber),
		Time:        new(big.Int).SetUint64(env.Time),
		Difficulty:  big.NewInt(0),
		BaseFee:     env.BaseFee,
	}
	msg := ethtypes.NewMessage(m.From, m.To, m.Nonce, m.Value, m.GasLimit, m.GasPrice, m.FeeCap, m.TipCap, m.Data, m.Access, false)
	evm := vm.NewEVM(blockCtx, core.NewEVMTxContext(msg), st, env.ChainConfig, vm.Config{ExtraEips: env.ExtraEips})
	gp := new(core.GasPool).AddGas(env.GasLimit)
	res, err := core.ApplyMessage(evm, msg, gp)
	if err != nil {
		return Result{Err: err, State: st}
	}
	return Result{UsedGas: res.UsedGas, Failed: res.Failed(), VMErr: res.Err, State: st}
}
