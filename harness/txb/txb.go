// Package txb builds signed transactions of every kind the chain accepts, with every field under the caller's
// control (so that mutations and foreign-chain signatures can be produced): Ethereum txs wrapped in the Cosmos
// envelope, Cosmos txs in SIGN_MODE_DIRECT / LEGACY_AMINO_JSON with ethsecp256k1 keys, and EIP-712 signed txs.
package txb

import (
	"fmt"
	"math/big"
	"sync"

	sdkmath "cosmossdk.io/math"
	"github.com/cosmos/cosmos-sdk/client"
	clienttx "github.com/cosmos/cosmos-sdk/client/tx"
	"github.com/cosmos/cosmos-sdk/codec"
	codectypes "github.com/cosmos/cosmos-sdk/codec/types"
	sdk "github.com/cosmos/cosmos-sdk/types"
	"github.com/cosmos/cosmos-sdk/types/tx/signing"
	"github.com/cosmos/cosmos-sdk/x/auth/migrations/legacytx"
	authsigning "github.com/cosmos/cosmos-sdk/x/auth/signing"
	authtx "github.com/cosmos/cosmos-sdk/x/auth/tx"
	"github.com/ethereum/go-ethereum/common"
	ethtypes "github.com/ethereum/go-ethereum/core/types"
	"github.com/ethereum/go-ethereum/crypto"
	"github.com/ethereum/go-ethereum/signer/core/apitypes"

	"github.com/haqq-network/haqq/app"
	cryptocodec "github.com/haqq-network/haqq/crypto/codec"
	"github.com/haqq-network/haqq/encoding"
	"github.com/haqq-network/haqq/ethereum/eip712"
	haqqtypes "github.com/haqq-network/haqq/types"
	evmtypes "github.com/haqq-network/haqq/x/evm/types"

	"verif/chain"
)

var (
	cfgOnce sync.Once
	txCfg   client.TxConfig
)

func TxConfig() client.TxConfig {
	cfgOnce.Do(func() { txCfg = encoding.MakeConfig(app.ModuleBasics).TxConfig })
	return txCfg
}

// ---- Ethereum ----------------------------------------------------------------------------------------------

// Eth describes one Ethereum transaction. Type: 0 legacy, 1 access list, 2 dynamic fee.
type Eth struct {
	Type     int
	ChainID  *big.Int // chain id used for signing (and the typed tx field)
	Nonce    uint64
	To       *common.Address
	Value    *big.Int
	Gas      uint64
	GasPrice *big.Int // type 0/1
	FeeCap   *big.Int // type 2
	TipCap   *big.Int // type 2
	Data     []byte
	Access   ethtypes.AccessList
	Unprot   bool // legacy: sign with the Homestead signer (no replay protection)
}

func (e Eth) inner() ethtypes.TxData {
	v := e.Value
	if v == nil {
		v = new(big.Int)
	}
	switch e.Type {
	case 0:
		return &ethtypes.LegacyTx{Nonce: e.Nonce, GasPrice: e.GasPrice, Gas: e.Gas, To: e.To, Value: v, Data: e.Data}
	case 1:
		return &ethtypes.AccessListTx{ChainID: e.ChainID, Nonce: e.Nonce, GasPrice: e.GasPrice, Gas: e.Gas, To: e.To, Value: v, Data: e.Data, AccessList: e.Access}
	default:
		return &ethtypes.DynamicFeeTx{ChainID: e.ChainID, Nonce: e.Nonce, GasTipCap: e.TipCap, GasFeeCap: e.FeeCap, Gas: e.Gas, To: e.To, Value: v, Data: e.Data, AccessList: e.Access}
	}
}

// SignEth signs the transaction with the account's key.
func SignEth(acc chain.Account, e Eth) *ethtypes.Transaction {
	key, err := acc.Priv.ToECDSA()
	if err != nil {
		panic(err)
	}
	var signer ethtypes.Signer = ethtypes.LatestSignerForChainID(e.ChainID)
	if e.Unprot {
		signer = ethtypes.HomesteadSigner{}
	}
	tx, err := ethtypes.SignNewTx(key, signer, e.inner())
	if err != nil {
		panic(err)
	}
	return tx
}

// WrapEth puts one or more signed Ethereum transactions into the Cosmos envelope exactly like the JSON-RPC
// server does (ExtensionOptionsEthereumTx, fee = sum of fees, gas = sum of gas, no signatures).
func WrapEth(txs ...*ethtypes.Transaction) ([]byte, error) {
	b := TxConfig().NewTxBuilder()
	builder := b.(authtx.ExtensionOptionsTxBuilder)
	option, err := codectypes.NewAnyWithValue(&evmtypes.ExtensionOptionsEthereumTx{})
	if err != nil {
		return nil, err
	}
	builder.SetExtensionOptions(option)
	var msgs []sdk.Msg
	fee := new(big.Int)
	var gas uint64
	for _, tx := range txs {
		msg := &evmtypes.MsgEthereumTx{}
		if err := msg.FromEthereumTx(tx); err != nil {
			return nil, err
		}
		td, err := evmtypes.UnpackTxData(msg.Data)
		if err != nil {
			return nil, err
		}
		fee.Add(fee, td.Fee())
		gas += tx.Gas()
		msgs = append(msgs, msg)
	}
	if err := builder.SetMsgs(msgs...); err != nil {
		return nil, err
	}
	if fee.Sign() > 0 {
		builder.SetFeeAmount(sdk.NewCoins(sdk.NewCoin(chain.Denom, sdkmath.NewIntFromBigInt(fee))))
	}
	builder.SetGasLimit(gas)
	return TxConfig().TxEncoder()(builder.GetTx())
}

// EthTx signs and wraps in one step.
func EthTx(acc chain.Account, e Eth) []byte {
	bz, err := WrapEth(SignEth(acc, e))
	if err != nil {
		panic(err)
	}
	return bz
}

// ---- Cosmos ------------------------------------------------------------------------------------------------

type Cosmos struct {
	Msgs          []sdk.Msg
	Gas           uint64
	Fee           sdk.Coins
	Memo          string
	TimeoutHeight uint64
	ChainID       string // signed chain id
	AccNum        uint64
	Seq           uint64
	Mode          signing.SignMode // DIRECT (default) or LEGACY_AMINO_JSON
	FeePayer      sdk.AccAddress
	FeeGranter    sdk.AccAddress
	ExtOpts       []*codectypes.Any
	NonCritOpts   []*codectypes.Any
}

func (c Cosmos) Builder() client.TxBuilder {
	b := TxConfig().NewTxBuilder()
	if err := b.SetMsgs(c.Msgs...); err != nil {
		panic(err)
	}
	b.SetGasLimit(c.Gas)
	b.SetFeeAmount(c.Fee)
	b.SetMemo(c.Memo)
	b.SetTimeoutHeight(c.TimeoutHeight)
	if c.FeePayer != nil {
		b.SetFeePayer(c.FeePayer)
	}
	if c.FeeGranter != nil {
		b.SetFeeGranter(c.FeeGranter)
	}
	eb := b.(authtx.ExtensionOptionsTxBuilder)
	if len(c.ExtOpts) > 0 {
		eb.SetExtensionOptions(c.ExtOpts...)
	}
	if len(c.NonCritOpts) > 0 {
		eb.SetNonCriticalExtensionOptions(c.NonCritOpts...)
	}
	return b
}

// SignCosmos returns the signed tx builder (single signer).
func SignCosmos(acc chain.Account, c Cosmos) client.TxBuilder {
	mode := c.Mode
	if mode == signing.SignMode_SIGN_MODE_UNSPECIFIED {
		mode = signing.SignMode_SIGN_MODE_DIRECT
	}
	b := c.Builder()
	sig := signing.SignatureV2{PubKey: acc.Priv.PubKey(), Data: &signing.SingleSignatureData{SignMode: mode}, Sequence: c.Seq}
	if err := b.SetSignatures(sig); err != nil {
		panic(err)
	}
	sd := authsigning.SignerData{ChainID: c.ChainID, AccountNumber: c.AccNum, Sequence: c.Seq, Address: acc.Addr.String(), PubKey: acc.Priv.PubKey()}
	sig, err := clienttx.SignWithPrivKey(mode, sd, b, acc.Priv, TxConfig(), c.Seq)
	if err != nil {
		panic(err)
	}
	if err := b.SetSignatures(sig); err != nil {
		panic(err)
	}
	return b
}

func Encode(b client.TxBuilder) []byte {
	bz, err := TxConfig().TxEncoder()(b.GetTx())
	if err != nil {
		panic(err)
	}
	return bz
}

func CosmosTx(acc chain.Account, c Cosmos) []byte { return Encode(SignCosmos(acc, c)) }

// ---- EIP-712 -----------------------------------------------------------------------------------------------

// EIP712 signs the Cosmos tx as EIP-712 typed data. legacyExt selects the ExtensionOptionsWeb3Tx route (signature
// in the extension), otherwise the signature goes into the regular signer info (pubkey fallback route).
// typedChainID is the chain id placed in the typed-data domain.
func EIP712(acc chain.Account, c Cosmos, typedChainID uint64, legacyExt bool) (client.TxBuilder, error) {
	fee := legacytx.NewStdFee(c.Gas, c.Fee) //nolint:staticcheck
	data := legacytx.StdSignBytes(c.ChainID, c.AccNum, c.Seq, c.TimeoutHeight, fee, c.Msgs, c.Memo, nil)
	var typed apitypes.TypedData
	var err error
	if legacyExt {
		typed, err = eip712.LegacyWrapTxToTypedData(eipCodec(), typedChainID, c.Msgs[0], data, &eip712.FeeDelegationOptions{FeePayer: acc.Addr})
	} else {
		typed, err = eip712.WrapTxToTypedData(typedChainID, data)
	}
	if err != nil {
		return nil, err
	}
	sigHash, _, err := apitypes.TypedDataAndHash(typed)
	if err != nil {
		return nil, err
	}
	sigBz, err := acc.Priv.Sign(sigHash)
	if err != nil {
		return nil, err
	}
	sigBz[crypto.RecoveryIDOffset] += 27
	cc := c
	if legacyExt {
		opt, err := codectypes.NewAnyWithValue(&haqqtypes.ExtensionOptionsWeb3Tx{FeePayer: acc.Addr.String(), TypedDataChainID: typedChainID, FeePayerSig: sigBz})
		if err != nil {
			return nil, err
		}
		cc.ExtOpts = append([]*codectypes.Any{opt}, c.ExtOpts...)
	}
	b := cc.Builder()
	var sig signing.SignatureV2
	if legacyExt {
		sig = signing.SignatureV2{PubKey: acc.Priv.PubKey(), Data: &signing.SingleSignatureData{SignMode: signing.SignMode_SIGN_MODE_LEGACY_AMINO_JSON}, Sequence: c.Seq}
	} else {
		sig = signing.SignatureV2{PubKey: acc.Priv.PubKey(), Data: &signing.SingleSignatureData{SignMode: signing.SignMode_SIGN_MODE_LEGACY_AMINO_JSON, Signature: sigBz}, Sequence: c.Seq}
	}
	if err := b.SetSignatures(sig); err != nil {
		return nil, err
	}
	return b, nil
}

// EIP712Direct signs a SIGN_MODE_DIRECT Cosmos tx with an EIP-712 signature over the typed data the chain derives from
// the protobuf sign document (the route the ethsecp256k1 public key falls back to when plain ECDSA verification fails).
func EIP712Direct(acc chain.Account, c Cosmos) (client.TxBuilder, error) {
	b := c.Builder()
	mode := signing.SignMode_SIGN_MODE_DIRECT
	sig := signing.SignatureV2{PubKey: acc.Priv.PubKey(), Data: &signing.SingleSignatureData{SignMode: mode}, Sequence: c.Seq}
	if err := b.SetSignatures(sig); err != nil {
		return nil, err
	}
	sd := authsigning.SignerData{ChainID: c.ChainID, AccountNumber: c.AccNum, Sequence: c.Seq, Address: acc.Addr.String(), PubKey: acc.Priv.PubKey()}
	signBytes, err := TxConfig().SignModeHandler().GetSignBytes(mode, sd, b.GetTx())
	if err != nil {
		return nil, err
	}
	typed, err := eip712.GetEIP712BytesForMsg(signBytes)
	if err != nil {
		return nil, err
	}
	sigBz, err := acc.Priv.Sign(crypto.Keccak256(typed))
	if err != nil {
		return nil, err
	}
	sig.Data = &signing.SingleSignatureData{SignMode: mode, Signature: sigBz}
	if err := b.SetSignatures(sig); err != nil {
		return nil, err
	}
	return b, nil
}

var (
	eipOnce sync.Once
	eipCdc  codec.ProtoCodecMarshaler
)

// eipCodec mirrors the codec the legacy EIP-712 ante decorator uses to derive the typed-data types.
func eipCodec() codec.ProtoCodecMarshaler {
	eipOnce.Do(func() {
		registry := codectypes.NewInterfaceRegistry()
		haqqtypes.RegisterInterfaces(registry)
		cryptocodec.RegisterInterfaces(registry)
		eipCdc = codec.NewProtoCodec(registry)
	})
	return eipCdc
}

// AccInfo reads account number and sequence from a context.
func AccInfo(ctx sdk.Context, a *app.Haqq, addr sdk.AccAddress) (num, seq uint64) {
	acc := a.AccountKeeper.GetAccount(ctx, addr)
	if acc == nil {
		return 0, 0
	}
	return acc.GetAccountNumber(), acc.GetSequence()
}

func MustAny(m interface {
	ProtoMessage()
	Reset()
	String() string
}) *codectypes.Any {
	a, err := codectypes.NewAnyWithValue(m)
	if err != nil {
		panic(fmt.Sprintf("any: %v", err))
	}
	return a
}
